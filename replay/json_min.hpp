// minimal reader for the flat pieces of a replay file the native drivers need
#pragma once
#include <fstream>
#include <sstream>
#include <string>
#include <map>
#include <cstdlib>
#include <cstdint>
struct ReplayFile {
    std::string text;
    explicit ReplayFile(const char* path) {
        std::ifstream f(path); std::stringstream ss; ss << f.rdbuf(); text = ss.str();
    }
    // value of "key": "...."  (first occurrence after `from`)
    std::string str(const std::string& key, size_t from = 0) const {
        auto p = text.find("\"" + key + "\":", from);
        if (p == std::string::npos) return "";
        p = text.find(':', p) + 1;
        while (p < text.size() && (text[p] == ' ')) ++p;
        if (text[p] == '"') {
            auto e = p + 1; std::string out;
            while (e < text.size() && text[e] != '"') { if (text[e] == '\\') ++e; out += text[e]; ++e; }
            return out;
        }
        auto e = p; while (e < text.size() && text[e] != ',' && text[e] != '\n' && text[e] != '}') ++e;
        return text.substr(p, e - p);
    }
    size_t find(const std::string& key) const { return text.find("\"" + key + "\":"); }
    bool has_input(const std::string& name) const {
        auto p = find("inputs"); if (p == std::string::npos) return false;
        auto e = text.find('}', p);
        auto q = text.find("\"" + name + "\":", p);
        return q != std::string::npos && q < e;
    }
    // inputs are stored as strings like "165" or "0xA5" or "'a'"
    long long input(const std::string& name, long long dflt = 0) const {
        auto p = find("inputs"); if (p == std::string::npos) return dflt;
        std::string v = str(name, p);
        if (v.empty()) return dflt;
        return std::strtoll(v.c_str(), nullptr, 0);
    }
};
