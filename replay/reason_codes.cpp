// native replay for unit reason_codes: runs the REAL to_reason_code<cat>() of
// /repo on the counterexample byte (and, when that does not reproduce, on all
// 9 x 256 inputs) and evaluates the same postcondition (spec/reason_tables.h).
#include <boost/mqtt5/reason_codes.hpp>
#include <cstdio>
#include <cstring>
#include "replay/json_min.hpp"
#include "spec/reason_tables.h"
using namespace boost::mqtt5;
using C = reason_codes::category;

template <C cat> static int check_one(int k, unsigned code, bool verbose) {
    auto [ptr, len] = reason_codes::detail::valid_codes<cat>();
    auto it = std::lower_bound(ptr, ptr + len, reason_code(uint8_t(code)));
    if (it == ptr + len) {
        // the real table and the real std::lower_bound put the search result one
        // past the table for this byte; the obligation that failed is the
        // dereference that follows in to_reason_code
        if (verbose) std::printf("CONFIRMED category=%d code=0x%02X: std::lower_bound over valid_codes<%d>() (len %zu, last 0x%02X) returns ptr+len; to_reason_code reads it->value() there (one element past the table)\n",
                                 k, code, k, len, ptr[len - 1].value());
        return 1;
    }
    auto r = to_reason_code<cat>(uint8_t(code));
    int ref = ref_rc(k, code);
    bool bad = (r.has_value() && ref == 0) || (!r.has_value() && ref == 1) || (r.has_value() && r->value() != code);
    if (bad && verbose)
        std::printf("CONFIRMED category=%d code=0x%02X: to_reason_code %s (value 0x%02X), MQTT 5 table says %s\n", k, code,
                    r.has_value() ? "accepts" : "rejects", r.has_value() ? r->value() : 0, ref == 1 ? "listed" : ref == 0 ? "not listed" : "either");
    return bad;
}
static int check(int k, unsigned code, bool v) {
    switch (k) {
        case 1: return check_one<C::connack>(k, code, v);
        case 2: return check_one<C::puback>(k, code, v);
        case 3: return check_one<C::pubrec>(k, code, v);
        case 4: return check_one<C::pubrel>(k, code, v);
        case 5: return check_one<C::pubcomp>(k, code, v);
        case 6: return check_one<C::suback>(k, code, v);
        case 7: return check_one<C::unsuback>(k, code, v);
        case 8: return check_one<C::auth>(k, code, v);
        case 9: return check_one<C::disconnect>(k, code, v);
    }
    return 0;
}
int main(int argc, char** argv) {
    if (argc < 2) return 2;
    ReplayFile rf(argv[1]);
    std::string fn = rf.str("function");
    int k = fn.empty() ? 0 : fn.back() - '0';
    if (rf.has_input("code")) {
        unsigned code = unsigned(rf.input("code")) & 0xFF;
        if (check(k, code, true)) return 0;
        std::printf("counterexample byte 0x%02X does not reproduce; searching all 256 bytes of category %d\n", code, k);
    }
    for (unsigned c = 0; c < 256; ++c)
        if (check(k, c, true)) return 0;
    std::printf("NOT-CONFIRMED\n");
    return 0;
}
