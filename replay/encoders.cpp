// Native BOUNDED differential driver for unit encoders (C17) and the decode
// round trip (C18).  NOT a proof: an enumerated boundary domain, stated below,
// run against the REAL encode_* / decode_* of /repo.
//
// For every packet type and every element of the domain:
//   (1) the bytes produced by encode_X are parsed by an INDEPENDENT reference
//       reader written from MQTT 5.0 (sections 2.1, 2.2.2, 3.x): first byte =
//       packet type and the flags of Table 2-2, Remaining Length a canonical
//       variable byte integer equal to the number of bytes that follow, body
//       consumed exactly, Property Length equal to the bytes of the property
//       section, only properties Table 2-4 allows for that packet type, no
//       property repeated except User Property (and Subscription Identifier in
//       PUBLISH), reserved bits zero;
//   (2) the fields and properties the reference reader found equal the values
//       handed to the encoder;
//   (3) the repository's decode_X accepts the packet, consumes exactly the
//       Remaining Length, and yields the same fields and properties.
// Domain: strings {"", "a", "some/topic", 200 x 'x'}; binary/payload sizes
// {0, 1, 127, 128, 16383, 16384, 70000} (Remaining Length boundaries);
// packet ids {1, 0xABCD, 0xFFFF}; reason codes {0x00, 0x10, 0x80, 0x97};
// property selections {none, each single property, all, all with the second
// value set, two user properties}; keep-alive {0, 60, 65535}; all QoS / retain
// / dup combinations; 1..3 topics per SUBSCRIBE/UNSUBSCRIBE with every option.
#include <boost/mqtt5/impl/codecs/message_decoders.hpp>
#include <boost/mqtt5/impl/codecs/message_encoders.hpp>
#include <boost/mqtt5/types.hpp>
#include <cstdio>
#include <cstring>
#include <cstdlib>
#include <map>
#include <set>
#include <string>
#include <type_traits>
#include <vector>
using namespace boost::mqtt5;
using byte_citer = detail::byte_citer;

static unsigned long evals = 0, findings = 0;
static std::string hex(const std::string& s, size_t max = 48) {
    std::string o; char b[8];
    for (size_t i = 0; i < s.size() && i < max; ++i) { std::snprintf(b, 8, "%02X ", (unsigned char)s[i]); o += b; }
    if (s.size() > max) o += "...";
    return o;
}
static void finding(const char* what, const std::string& why, const std::string& bytes) {
    if (findings < 12)
        std::printf("CONFIRMED %s: %s; packet (%zu bytes) [%s]\n", what, why.c_str(), bytes.size(), hex(bytes).c_str());
    ++findings;
}

// ------------------------------------------------------------ canonical form
using PList = std::multiset<std::pair<int, std::string>>;   // property id -> value in wire form
static std::string be16(unsigned v) { return std::string{ char(v >> 8), char(v) }; }
static std::string be32(uint32_t v) { return std::string{ char(v >> 24), char(v >> 16), char(v >> 8), char(v) }; }
static std::string wstr(std::string_view s) { return be16(unsigned(s.size())) + std::string(s); }
static std::string varint(uint32_t v) { std::string s; do { uint8_t b = v & 0x7F; v >>= 7; if (v) b |= 0x80; s += char(b); } while (v); return s; }

template <typename T> struct is_opt : std::false_type {};
template <typename T> struct is_opt<std::optional<T>> : std::true_type {};

// properties<...>::visit also probes the visitor with the plain enum type (is_visitor); only the
// integral_constant key carries the property id
template <class K> struct key_of { static constexpr int value = 0; };
template <prop::property_type p> struct key_of<std::integral_constant<prop::property_type, p>> { static constexpr int value = int(p); };

template <typename Props> static PList flatten(const Props& p) {
    PList out;
    p.visit([&out](auto key, const auto& val) {
        using V = std::remove_cv_t<std::remove_reference_t<decltype(val)>>;
        constexpr int id = key_of<decltype(key)>::value;
        if constexpr (std::is_same_v<V, std::optional<uint8_t>>) { if (val) out.insert({ id, std::string(1, char(*val)) }); }
        else if constexpr (std::is_same_v<V, std::optional<uint16_t>>) { if (val) out.insert({ id, be16(*val) }); }
        else if constexpr (std::is_same_v<V, std::optional<uint32_t>>) { if (val) out.insert({ id, be32(*val) }); }
        else if constexpr (std::is_same_v<V, std::optional<std::string>>) { if (val) out.insert({ id, wstr(*val) }); }
        else if constexpr (std::is_same_v<V, prop::subscription_identifiers>) { for (auto v : val) out.insert({ id, varint(uint32_t(v)) }); }
        else { for (const auto& kv : val) out.insert({ id, wstr(kv.first) + wstr(kv.second) }); }
        return true;
    });
    return out;
}
template <typename Props> static int prop_count() {
    int n = 0; Props p; p.visit([&n](auto, auto&) { ++n; return true; }); return n;
}
// set the properties selected by mask; variant picks the value
template <typename Props> static void fill(Props& p, unsigned mask, int variant, bool multi_subid) {
    int idx = 0;
    static const std::string L(200, 'x');
    p.visit([&](auto key, auto& val) {
        using V = std::remove_reference_t<decltype(val)>;
        constexpr int id = key_of<decltype(key)>::value;
        bool on = (mask >> idx) & 1; ++idx;
        if (!on) return true;
        if constexpr (std::is_same_v<V, std::optional<uint8_t>>) val = uint8_t(variant ? 1 : 0);
        else if constexpr (std::is_same_v<V, std::optional<uint16_t>>) val = uint16_t(variant ? 0xFFFF : 1 + id);
        else if constexpr (std::is_same_v<V, std::optional<uint32_t>>) val = uint32_t(variant ? 0xFFFFFFFFu : 0x01020300u + id);
        else if constexpr (std::is_same_v<V, std::optional<std::string>>) val = variant ? L : (id == 0x16 || id == 0x09 ? std::string("\x00\xFF\x01", 3) : std::string("v") + char('a' + id % 26));
        else if constexpr (std::is_same_v<V, prop::subscription_identifiers>) {
            val.push_back(variant ? 268435455 : 1);
            if (multi_subid && variant) val.push_back(300);
        }
        else { val.emplace_back("key", variant ? L : "value"); if (variant) val.emplace_back("", ""); }
        return true;
    });
}

// ------------------------------------------------------ reference wire reader
struct Cur {
    const std::string& b; size_t p = 0, end = 0; bool ok = true; std::string why;
    explicit Cur(const std::string& s) : b(s), end(s.size()) {}
    bool fail(const char* w) { if (ok) { ok = false; why = w; } return false; }
    unsigned u8() { if (p + 1 > end) { fail("truncated"); return 0; } return (unsigned char)b[p++]; }
    unsigned u16() { unsigned h = u8(); unsigned l = u8(); return h << 8 | l; }
    uint32_t u32() { uint32_t a = u16(); uint32_t c = u16(); return a << 16 | c; }
    std::string raw(size_t n) { if (p + n > end) { fail("truncated"); return {}; } std::string s = b.substr(p, n); p += n; return s; }
    std::string str() { unsigned n = u16(); return raw(n); }
    uint32_t vbi() {      // canonical variable byte integer (1.5.5): minimal length, at most 4 bytes
        uint32_t v = 0; int sh = 0;
        for (int i = 0; i < 4; ++i) {
            unsigned c = u8(); if (!ok) return 0;
            v |= uint32_t(c & 0x7F) << sh; sh += 7;
            if (!(c & 0x80)) { if (i > 0 && (c & 0x7F) == 0) fail("non-minimal variable byte integer"); return v; }
        }
        fail("variable byte integer longer than 4 bytes"); return 0;
    }
};
enum { CONNECT = 1, CONNACK, PUBLISH, PUBACK, PUBREC, PUBREL, PUBCOMP, SUBSCRIBE, SUBACK, UNSUBSCRIBE, UNSUBACK, PINGREQ, PINGRESP, DISCONNECT, AUTH, WILL = 100 };
// MQTT 5.0 Table 2-4 (property -> packets it may appear in)
static const std::map<int, std::set<int>> ALLOWED = {
    { CONNECT, { 0x11, 0x21, 0x27, 0x22, 0x19, 0x17, 0x26, 0x15, 0x16 } },
    { CONNACK, { 0x11, 0x21, 0x24, 0x25, 0x27, 0x12, 0x22, 0x1F, 0x26, 0x28, 0x29, 0x2A, 0x13, 0x1A, 0x1C, 0x15, 0x16 } },
    { PUBLISH, { 0x01, 0x02, 0x23, 0x08, 0x09, 0x26, 0x0B, 0x03 } },
    { WILL, { 0x18, 0x01, 0x02, 0x03, 0x08, 0x09, 0x26 } },
    { PUBACK, { 0x1F, 0x26 } }, { PUBREC, { 0x1F, 0x26 } }, { PUBREL, { 0x1F, 0x26 } }, { PUBCOMP, { 0x1F, 0x26 } },
    { SUBSCRIBE, { 0x0B, 0x26 } }, { SUBACK, { 0x1F, 0x26 } }, { UNSUBSCRIBE, { 0x26 } }, { UNSUBACK, { 0x1F, 0x26 } },
    { DISCONNECT, { 0x11, 0x1F, 0x26, 0x1C } }, { AUTH, { 0x15, 0x16, 0x1F, 0x26 } } };
static bool read_props(Cur& c, int packet, PList& out) {
    uint32_t len = c.vbi(); if (!c.ok) return false;
    if (c.p + len > c.end) return c.fail("Property Length runs past the packet");
    size_t stop = c.p + len, save_end = c.end; c.end = stop;
    std::set<int> seen;
    while (c.ok && c.p < stop) {
        int id = int(c.vbi()); if (!c.ok) break;
        if (!ALLOWED.at(packet).count(id)) { c.fail("property not allowed in this packet type"); break; }
        if (seen.count(id) && id != 0x26 && !(id == 0x0B && packet == PUBLISH)) { c.fail("property included more than once"); break; }
        seen.insert(id);
        std::string v;
        switch (id) {
            case 0x01: case 0x17: case 0x19: case 0x24: case 0x25: case 0x28: case 0x29: case 0x2A: v = c.raw(1); break;
            case 0x13: case 0x21: case 0x22: case 0x23: v = c.raw(2); break;
            case 0x02: case 0x11: case 0x18: case 0x27: v = c.raw(4); break;
            case 0x0B: { uint32_t x = c.vbi(); if (c.ok && x == 0) c.fail("Subscription Identifier 0"); v = varint(x); break; }
            case 0x26: { std::string k = c.str(); std::string w = c.str(); v = wstr(k) + wstr(w); break; }
            default: v = wstr(c.str());
        }
        out.insert({ id, v });
    }
    if (c.ok && c.p != stop) c.fail("property section not consumed exactly");
    c.end = save_end;
    return c.ok;
}
struct Parsed { std::vector<std::string> f; PList props, wprops; };
static std::string num(unsigned long v) { return std::to_string(v); }
// returns false + why when the packet is not a well-formed MQTT 5 packet of type `type`
static bool ref_parse(const std::string& pkt, int type, Parsed& out, std::string& why) {
    Cur c(pkt);
    unsigned b0 = c.u8();
    if (!c.ok || int(b0 >> 4) != type) { why = "wrong packet type in the first byte"; return false; }
    unsigned fl = b0 & 0x0F;
    if (type == PUBLISH) { if (((fl >> 1) & 3) == 3) { why = "PUBLISH with QoS 3"; return false; } }
    else if (type == PUBREL || type == SUBSCRIBE || type == UNSUBSCRIBE) { if (fl != 2) { why = "fixed header flags must be 0010"; return false; } }
    else if (fl != 0) { why = "fixed header flags must be 0000"; return false; }
    uint32_t rl = c.vbi();
    if (!c.ok) { why = "Remaining Length: " + c.why; return false; }
    if (size_t(rl) != pkt.size() - c.p) { why = "Remaining Length " + num(rl) + " differs from the " + num(pkt.size() - c.p) + " bytes that follow"; return false; }
    switch (type) {
        case CONNECT: {
            if (c.str() != "MQTT" || c.u8() != 5) c.fail("protocol name/version");
            unsigned cf = c.u8(); if (cf & 1) c.fail("reserved connect flag set");
            if (!(cf & 4) && (cf & 0x38)) c.fail("will qos/retain without will flag");
            if (((cf >> 3) & 3) == 3) c.fail("will qos 3");
            out.f.push_back(num(cf)); out.f.push_back(num(c.u16()));
            read_props(c, CONNECT, out.props);
            out.f.push_back(c.str());
            if (cf & 4) { read_props(c, WILL, out.wprops); out.f.push_back(c.str()); out.f.push_back(c.str()); }
            if (cf & 0x80) out.f.push_back(c.str());
            if (cf & 0x40) out.f.push_back(c.str());
            break; }
        case CONNACK: {
            unsigned af = c.u8(); if (af & 0xFE) c.fail("reserved acknowledge flags set");
            out.f.push_back(num(af)); out.f.push_back(num(c.u8())); read_props(c, CONNACK, out.props); break; }
        case PUBLISH: {
            out.f.push_back(num(fl)); out.f.push_back(c.str());
            if ((fl >> 1) & 3) { unsigned id = c.u16(); if (id == 0) c.fail("packet identifier 0"); out.f.push_back(num(id)); }
            read_props(c, PUBLISH, out.props);
            out.f.push_back(c.raw(c.end - c.p)); break; }
        case PUBACK: case PUBREC: case PUBREL: case PUBCOMP: {
            out.f.push_back(num(c.u16()));
            if (c.p == c.end) out.f.push_back("0");
            else { out.f.push_back(num(c.u8())); if (c.p != c.end) read_props(c, type, out.props); }
            break; }
        case SUBSCRIBE: {
            out.f.push_back(num(c.u16())); read_props(c, SUBSCRIBE, out.props);
            if (c.p == c.end) c.fail("SUBSCRIBE without topic filter");
            while (c.ok && c.p < c.end) { out.f.push_back(c.str()); unsigned o = c.u8(); if (o & 0xC0) c.fail("reserved subscription option bits"); if (((o >> 4) & 3) == 3) c.fail("retain handling 3"); if ((o & 3) == 3) c.fail("max qos 3"); out.f.push_back(num(o)); }
            break; }
        case UNSUBSCRIBE: {
            out.f.push_back(num(c.u16())); read_props(c, UNSUBSCRIBE, out.props);
            if (c.p == c.end) c.fail("UNSUBSCRIBE without topic filter");
            while (c.ok && c.p < c.end) out.f.push_back(c.str());
            break; }
        case SUBACK: case UNSUBACK: {
            out.f.push_back(num(c.u16())); read_props(c, type, out.props);
            if (c.p == c.end) c.fail("acknowledgement without reason code");
            while (c.ok && c.p < c.end) out.f.push_back(num(c.u8()));
            break; }
        case PINGREQ: case PINGRESP: break;
        case DISCONNECT: case AUTH: {
            if (c.p == c.end) out.f.push_back("0");
            else { out.f.push_back(num(c.u8())); if (c.p != c.end) read_props(c, type, out.props); }
            break; }
    }
    if (c.ok && c.p != c.end) c.fail("bytes left after the packet body");
    why = c.why;
    return c.ok;
}

static bool same(const char* what, const std::string& pkt, const Parsed& got, const std::vector<std::string>& f, const PList& props, const PList& wprops = {}) {
    if (got.f != f) {
        std::string d;
        for (size_t i = 0; i < std::max(got.f.size(), f.size()); ++i)
            if (i >= got.f.size() || i >= f.size() || got.f[i] != f[i]) { d = "field " + num(i) + " on the wire is [" + hex(i < got.f.size() ? got.f[i] : "<absent>", 16) + "], given [" + hex(i < f.size() ? f[i] : "<absent>", 16) + "]"; break; }
        finding(what, "encoded fields differ from the values given: " + d, pkt); return false;
    }
    if (got.props != props) { finding(what, "encoded properties differ from the properties given", pkt); return false; }
    if (got.wprops != wprops) { finding(what, "encoded Will properties differ from the ones given", pkt); return false; }
    return true;
}
// step (1)+(2): well-formed and faithful
static bool check_wire(const char* what, int type, const std::string& pkt, const std::vector<std::string>& f, const PList& props, const PList& wprops = {}) {
    ++evals;
    Parsed got; std::string why;
    if (!ref_parse(pkt, type, got, why)) { finding(what, "not a well-formed packet: " + why, pkt); return false; }
    return same(what, pkt, got, f, props, wprops);
}
struct Hdr { uint8_t b0; uint32_t rl; byte_citer it; bool ok; };
static Hdr header(const char* what, const std::string& pkt) {
    byte_citer it = pkt.cbegin();
    auto h = decoders::decode_fixed_header(it, pkt.cend());
    if (!h) { finding(what, "decode_fixed_header rejects the encoder's own packet", pkt); return { 0, 0, it, false }; }
    auto [b0, rl] = *h;
    return { b0, uint32_t(rl), it, true };
}
#define RT_FAIL(msg) do { finding(what, std::string("round trip: ") + msg, pkt); return; } while (0)

template <typename Props, typename Enc, typename Dec>
static void ack_like(const char* what, int type, Enc enc, Dec dec, bool multi) {
    const int n = prop_count<Props>();
    for (uint16_t pid : { uint16_t(1), uint16_t(0xABCD), uint16_t(0xFFFF) })
    for (uint8_t rc : { uint8_t(0x00), uint8_t(0x10), uint8_t(0x80), uint8_t(0x97) })
    for (int sel = 0; sel < n + 3; ++sel) {
        Props p; unsigned mask = sel == 0 ? 0 : sel <= n ? 1u << (sel - 1) : (1u << n) - 1;
        fill(p, mask, sel == n + 2, multi);
        std::string pkt = enc(pid, rc, p);
        if (!check_wire(what, type, pkt, { num(pid), num(rc) }, flatten(p))) continue;
        auto h = header(what, pkt); if (!h.ok) continue;
        auto it = h.it; auto id = decoders::decode_packet_id(it);
        if (!id || *id != pid) RT_FAIL("packet identifier");
        auto rv = dec(h.rl - 2, it);
        if (!rv) RT_FAIL("decoder rejects the packet");
        if (it != pkt.cend()) RT_FAIL("decoder did not consume exactly the Remaining Length");
        if (std::get<0>(*rv) != rc || flatten(std::get<1>(*rv)) != flatten(p)) RT_FAIL("decoded reason code / properties differ");
    }
}

int main(int argc, char** argv) {
    if (argc < 2) return 2;
    if (std::strcmp(argv[1], "--exhaustive") != 0) { std::printf("NOT-CONFIRMED no replay input format for this driver\n"); return 0; }
    const std::vector<std::string> S = { "", "a", "some/topic", std::string(200, 'x') };
    const std::vector<size_t> SZ = { 0, 1, 127, 128, 16383, 16384, 70000 };

    // ---------------------------------------------------------------- CONNECT
    {
        const char* what = "encode_connect"; const int n = prop_count<connect_props>(), nw = prop_count<will_props>();
        for (const auto& cid : S) for (int un = 0; un < 3; ++un) for (int pw = 0; pw < 3; ++pw)
        for (uint16_t ka : { uint16_t(0), uint16_t(60), uint16_t(65535) }) for (int cs = 0; cs < 2; ++cs)
        for (int sel = 0; sel < n + 3; sel += (cid.size() > 1 ? 3 : 1)) for (int wsel = -1; wsel < nw + 3; wsel += (un + pw ? 4 : 1)) {
            connect_props p; unsigned mask = sel == 0 ? 0 : sel <= n ? 1u << (sel - 1) : (1u << n) - 1; fill(p, mask, sel == n + 2, false);
            std::optional<std::string_view> user, pass;
            if (un) user = S[un]; if (pw) pass = S[pw + 1];
            std::optional<will> w;
            int wq = (wsel + 4) % 3, wr = (wsel + 4) % 2;
            if (wsel >= 0) {
                will ww { S[2], std::string(SZ[size_t(wsel) % 4], 'm'), qos_e(wq), retain_e(wr) };
                unsigned wm = wsel == 0 ? 0 : wsel <= nw ? 1u << (wsel - 1) : (1u << nw) - 1; fill(static_cast<will_props&>(ww), wm, wsel == nw + 2, false);
                w = std::move(ww);
            }
            std::string pkt = encoders::encode_connect(cid, user, pass, ka, cs != 0, p, w);
            unsigned cf = (un ? 0x80u : 0) | (pw ? 0x40u : 0) | (w ? (unsigned(wr) << 5 | unsigned(wq) << 3 | 4u) : 0) | (cs ? 2u : 0);
            std::vector<std::string> f = { num(cf), num(ka), cid };
            if (w) { f.push_back(S[2]); f.push_back(std::string(SZ[size_t(wsel) % 4], 'm')); }
            if (un) f.push_back(S[un]); if (pw) f.push_back(S[pw + 1]);
            if (!check_wire(what, CONNECT, pkt, f, flatten(p), w ? flatten(static_cast<const will_props&>(*w)) : PList {})) continue;
            auto h = header(what, pkt); if (!h.ok) continue;
            auto it = h.it; auto rv = decoders::decode_connect(h.rl, it);
            if (!rv) { finding(what, "round trip: decoder rejects the packet", pkt); continue; }
            auto& [cid2, un2, pw2, ka2, cs2, p2, w2] = *rv;
            bool ok = it == pkt.cend() && cid2 == cid && ka2 == ka && cs2 == (cs != 0) && un2.has_value() == (un != 0) && pw2.has_value() == (pw != 0)
                && (!un || *un2 == S[un]) && (!pw || *pw2 == S[pw + 1]) && flatten(p2) == flatten(p) && w2.has_value() == w.has_value();
            if (ok && w) ok = w2->topic() == w->topic() && w2->message() == w->message() && w2->qos() == w->qos() && w2->retain() == w->retain()
                && flatten(static_cast<const will_props&>(*w2)) == flatten(static_cast<const will_props&>(*w));
            if (!ok) finding(what, "round trip: decoded CONNECT differs from the values given", pkt);
        }
    }
    // ---------------------------------------------------------------- CONNACK
    {
        const char* what = "encode_connack"; const int n = prop_count<connack_props>();
        for (int sp = 0; sp < 2; ++sp) for (uint8_t rc : { uint8_t(0), uint8_t(0x80), uint8_t(0x9F) }) for (int sel = 0; sel < n + 3; ++sel) {
            connack_props p; unsigned mask = sel == 0 ? 0 : sel <= n ? 1u << (sel - 1) : (1u << n) - 1; fill(p, mask, sel == n + 2, false);
            std::string pkt = encoders::encode_connack(sp != 0, rc, p);
            if (!check_wire(what, CONNACK, pkt, { num(unsigned(sp)), num(rc) }, flatten(p))) continue;
            auto h = header(what, pkt); if (!h.ok) continue;
            auto it = h.it; auto rv = decoders::decode_connack(h.rl, it);
            if (!rv || it != pkt.cend() || std::get<0>(*rv) != sp || std::get<1>(*rv) != rc || flatten(std::get<2>(*rv)) != flatten(p))
                finding(what, "round trip: decoded CONNACK differs from the values given (or is rejected)", pkt);
        }
    }
    // ---------------------------------------------------------------- PUBLISH
    {
        const char* what = "encode_publish"; const int n = prop_count<publish_props>();
        for (const auto& topic : S) for (size_t sz : SZ) for (int q = 0; q < 3; ++q) for (int r = 0; r < 2; ++r) for (int d = 0; d < 2; ++d)
        for (uint16_t pid : { uint16_t(1), uint16_t(0xFFFF) })
        for (int sel = 0; sel < n + 3; sel += (sz > 128 ? 5 : 1)) {
            if (q == 0 && pid != 1) continue;
            publish_props p; unsigned mask = sel == 0 ? 0 : sel <= n ? 1u << (sel - 1) : (1u << n) - 1; fill(p, mask, sel == n + 2, true);
            std::string payload(sz, '\0'); for (size_t i = 0; i < sz; ++i) payload[i] = char(i * 7 + 3);
            std::string pkt = encoders::encode_publish(pid, topic, payload, qos_e(q), retain_e(r), dup_e(d), p);
            unsigned fl = unsigned(d) << 3 | unsigned(q) << 1 | unsigned(r);
            std::vector<std::string> f = { num(fl), topic }; if (q) f.push_back(num(pid)); f.push_back(payload);
            if (!check_wire(what, PUBLISH, pkt, f, flatten(p))) continue;
            auto h = header(what, pkt); if (!h.ok) continue;
            auto it = h.it; auto rv = decoders::decode_publish(h.b0, h.rl, it);
            if (!rv) { finding(what, "round trip: decoder rejects the packet", pkt); continue; }
            auto& [t2, id2, fl2, p2, pl2] = *rv;
            if (it != pkt.cend() || t2 != topic || id2.has_value() != (q != 0) || (q && *id2 != pid) || (fl2 & 0x0F) != fl || pl2 != payload || flatten(p2) != flatten(p))
                finding(what, "round trip: decoded PUBLISH differs from the values given", pkt);
        }
    }
    // ------------------------------------------- PUBACK / PUBREC / PUBREL / PUBCOMP
    ack_like<puback_props>("encode_puback", PUBACK, [](uint16_t i, uint8_t r, const puback_props& p) { return encoders::encode_puback(i, r, p); },
        [](uint32_t n, byte_citer& it) { return decoders::decode_puback(n, it); }, false);
    ack_like<pubrec_props>("encode_pubrec", PUBREC, [](uint16_t i, uint8_t r, const pubrec_props& p) { return encoders::encode_pubrec(i, r, p); },
        [](uint32_t n, byte_citer& it) { return decoders::decode_pubrec(n, it); }, false);
    ack_like<pubrel_props>("encode_pubrel", PUBREL, [](uint16_t i, uint8_t r, const pubrel_props& p) { return encoders::encode_pubrel(i, r, p); },
        [](uint32_t n, byte_citer& it) { return decoders::decode_pubrel(n, it); }, false);
    ack_like<pubcomp_props>("encode_pubcomp", PUBCOMP, [](uint16_t i, uint8_t r, const pubcomp_props& p) { return encoders::encode_pubcomp(i, r, p); },
        [](uint32_t n, byte_citer& it) { return decoders::decode_pubcomp(n, it); }, false);
    // ------------------------------------------------- SUBSCRIBE / UNSUBSCRIBE
    {
        const char* what = "encode_subscribe"; const int n = prop_count<subscribe_props>();
        for (uint16_t pid : { uint16_t(1), uint16_t(0xABCD) }) for (int nt = 1; nt <= 3; ++nt) for (int o = 0; o < 36; ++o) for (int sel = 0; sel < n + 3; ++sel) {
            subscribe_props p; unsigned mask = sel == 0 ? 0 : sel <= n ? 1u << (sel - 1) : (1u << n) - 1; fill(p, mask, sel == n + 2, false);
            std::vector<subscribe_topic> topics; std::vector<std::string> f = { num(pid) };
            for (int k = 0; k < nt; ++k) {
                int oo = (o + 7 * k) % 36; int q = oo % 3, nl = (oo / 3) % 2, rap = (oo / 6) % 2, rh = (oo / 12) % 3;
                subscribe_options so; so.max_qos = qos_e(q); so.no_local = no_local_e(nl); so.retain_as_published = retain_as_published_e(rap); so.retain_handling = retain_handling_e(rh);
                topics.push_back({ S[size_t(k + o) % 3 + 1], so });
                f.push_back(topics.back().topic_filter); f.push_back(num(unsigned(rh) << 4 | unsigned(rap) << 3 | unsigned(nl) << 2 | unsigned(q)));
            }
            std::string pkt = encoders::encode_subscribe(pid, topics, p);
            if (!check_wire(what, SUBSCRIBE, pkt, f, flatten(p))) continue;
            auto h = header(what, pkt); if (!h.ok) continue;
            auto it = h.it; auto id = decoders::decode_packet_id(it); auto rv = decoders::decode_subscribe(h.rl - 2, it);
            bool ok = id && *id == pid && rv && it == pkt.cend() && flatten(std::get<0>(*rv)) == flatten(p) && std::get<1>(*rv).size() == size_t(nt);
            for (int k = 0; ok && k < nt; ++k) ok = std::get<0>(std::get<1>(*rv)[size_t(k)]) == f[size_t(1 + 2 * k)] && num(std::get<1>(std::get<1>(*rv)[size_t(k)])) == f[size_t(2 + 2 * k)];
            if (!ok) finding(what, "round trip: decoded SUBSCRIBE differs from the values given (or is rejected)", pkt);
        }
    }
    {
        const char* what = "encode_unsubscribe"; const int n = prop_count<unsubscribe_props>();
        for (uint16_t pid : { uint16_t(1), uint16_t(0xABCD) }) for (int nt = 1; nt <= 3; ++nt) for (int o = 0; o < 3; ++o) for (int sel = 0; sel < n + 3; ++sel) {
            unsubscribe_props p; unsigned mask = sel == 0 ? 0 : sel <= n ? 1u << (sel - 1) : (1u << n) - 1; fill(p, mask, sel == n + 2, false);
            std::vector<std::string> topics; std::vector<std::string> f = { num(pid) };
            for (int k = 0; k < nt; ++k) { topics.push_back(S[size_t(k + o) % 3 + 1]); f.push_back(topics.back()); }
            std::string pkt = encoders::encode_unsubscribe(pid, topics, p);
            if (!check_wire(what, UNSUBSCRIBE, pkt, f, flatten(p))) continue;
            auto h = header(what, pkt); if (!h.ok) continue;
            auto it = h.it; auto id = decoders::decode_packet_id(it); auto rv = decoders::decode_unsubscribe(h.rl - 2, it);
            if (!(id && *id == pid && rv && it == pkt.cend() && flatten(std::get<0>(*rv)) == flatten(p) && std::get<1>(*rv) == topics))
                finding(what, "round trip: decoded UNSUBSCRIBE differs from the values given (or is rejected)", pkt);
        }
    }
    // ------------------------------------------------------ SUBACK / UNSUBACK
    auto acks = [&](const char* what, int type, auto props_tag, auto enc, auto dec) {
        using Props = decltype(props_tag); const int n = prop_count<Props>();
        for (uint16_t pid : { uint16_t(1), uint16_t(0xFFFF) }) for (int nr = 1; nr <= 3; ++nr) for (int sel = 0; sel < n + 3; ++sel) {
            Props p; unsigned mask = sel == 0 ? 0 : sel <= n ? 1u << (sel - 1) : (1u << n) - 1; fill(p, mask, sel == n + 2, false);
            std::vector<uint8_t> rcs; std::vector<std::string> f = { num(pid) };
            for (int k = 0; k < nr; ++k) { rcs.push_back(uint8_t(k == 0 ? 0 : k == 1 ? 0x80 : 0x11)); f.push_back(num(rcs.back())); }
            std::string pkt = enc(pid, rcs, p);
            if (!check_wire(what, type, pkt, f, flatten(p))) continue;
            auto h = header(what, pkt); if (!h.ok) continue;
            auto it = h.it; auto id = decoders::decode_packet_id(it); auto rv = dec(h.rl - 2, it);
            if (!(id && *id == pid && rv && it == pkt.cend() && flatten(std::get<0>(*rv)) == flatten(p) && std::get<1>(*rv) == rcs))
                finding(what, "round trip: decoded acknowledgement differs from the values given (or is rejected)", pkt);
        }
    };
    acks("encode_suback", SUBACK, suback_props {}, [](uint16_t i, const std::vector<uint8_t>& r, const suback_props& p) { return encoders::encode_suback(i, r, p); },
        [](uint32_t n, byte_citer& it) { return decoders::decode_suback(n, it); });
    acks("encode_unsuback", UNSUBACK, unsuback_props {}, [](uint16_t i, const std::vector<uint8_t>& r, const unsuback_props& p) { return encoders::encode_unsuback(i, r, p); },
        [](uint32_t n, byte_citer& it) { return decoders::decode_unsuback(n, it); });
    // ------------------------------------------------------ PINGREQ / PINGRESP
    check_wire("encode_pingreq", PINGREQ, encoders::encode_pingreq(), {}, {});
    check_wire("encode_pingresp", PINGRESP, encoders::encode_pingresp(), {}, {});
    // ------------------------------------------------------ DISCONNECT / AUTH
    auto rc_props = [&](const char* what, int type, auto props_tag, auto enc, auto dec) {
        using Props = decltype(props_tag); const int n = prop_count<Props>();
        for (uint8_t rc : { uint8_t(0x00), uint8_t(0x04), uint8_t(0x18), uint8_t(0x81), uint8_t(0x8E) }) for (int sel = 0; sel < n + 3; ++sel) {
            Props p; unsigned mask = sel == 0 ? 0 : sel <= n ? 1u << (sel - 1) : (1u << n) - 1; fill(p, mask, sel == n + 2, false);
            std::string pkt = enc(rc, p);
            if (!check_wire(what, type, pkt, { num(rc) }, flatten(p))) continue;
            auto h = header(what, pkt); if (!h.ok) continue;
            auto it = h.it; auto rv = dec(h.rl, it);
            if (!(rv && it == pkt.cend() && std::get<0>(*rv) == rc && flatten(std::get<1>(*rv)) == flatten(p)))
                finding(what, "round trip: decoded packet differs from the values given (or is rejected)", pkt);
        }
    };
    rc_props("encode_disconnect", DISCONNECT, disconnect_props {}, [](uint8_t r, const disconnect_props& p) { return encoders::encode_disconnect(r, p); },
        [](uint32_t n, byte_citer& it) { return decoders::decode_disconnect(n, it); });
    rc_props("encode_auth", AUTH, auth_props {}, [](uint8_t r, const auth_props& p) { return encoders::encode_auth(r, p); },
        [](uint32_t n, byte_citer& it) { return decoders::decode_auth(n, it); });

    std::printf("native differential: %lu evaluations, %lu disagreements\n", evals, findings);
    return findings ? 1 : 0;
}
