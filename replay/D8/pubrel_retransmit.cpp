// Native demonstration for finding D8 (property C04: "every PUBREL received is
// answered by a PUBCOMP").  History: the broker delivers a QoS 2 PUBLISH (id 1),
// gets PUBREC, sends PUBREL, the client writes PUBCOMP -- which is lost with the
// connection.  After the reconnect (session present) the broker, for which the
// PUBREL is still unacknowledged, retransmits PUBREL(1) [MQTT-4.4.0-1]; the
// client MUST answer it with PUBCOMP(1) [MQTT-4.3.3-11].  On the tree this was
// found on, no waiter exists for (PUBREL, 1) any more: replies::dispatch parks
// the packet in _fast_replies and async_sender::do_write drops it at the next
// write; the PUBREL is never answered.
// exit 0: the retransmitted PUBREL was answered.
#define BOOST_TEST_MODULE d8_pubrel_retransmit
#include <boost/test/included/unit_test.hpp>
#include <boost/mqtt5/mqtt_client.hpp>
#include <boost/mqtt5/types.hpp>
#include <boost/asio/detached.hpp>
#include <boost/asio/io_context.hpp>
#include <boost/asio/steady_timer.hpp>
#include <string>
#include <vector>
#include "test_common/message_exchange.hpp"
#include "test_common/packet_util.hpp"
#include "test_common/test_broker.hpp"
#include "test_common/test_service.hpp"
#include "test_common/test_stream.hpp"
using namespace boost::mqtt5;
using test::after;
using namespace std::chrono_literals;

BOOST_AUTO_TEST_CASE(retransmitted_pubrel_is_answered) {
    error_code success {};
    const std::string connect = encoders::encode_connect("", std::nullopt, std::nullopt, 60, false, {}, std::nullopt);
    const std::string connack = encoders::encode_connack(true, reason_codes::success.value(), {});
    const std::string publish = encoders::encode_publish(1, "topic/A", "payload A", qos_e::exactly_once, retain_e::no, dup_e::no, {});
    const std::string pubrec = encoders::encode_pubrec(1, uint8_t(0x00), {});
    const std::string pubrel = encoders::encode_pubrel(1, uint8_t(0x00), {});
    const std::string pubcomp = encoders::encode_pubcomp(1, uint8_t(0x00), {});

    asio::io_context ioc;
    auto executor = ioc.get_executor();
    // the broker treats its PUBREL as unacknowledged (the PUBCOMP did not reach it) and sends it
    // again; whether that happens after a reconnect with the session resumed or, as scripted here,
    // on the same connection makes no difference to the client: no waiter for (PUBREL, 1) exists
    test::msg_exchange script;
    script
        .expect(connect).complete_with(success, after(0ms)).reply_with(connack, after(0ms))
        .send(publish, after(50ms))
        .expect(pubrec).complete_with(success, after(1ms)).reply_with(pubrel, after(2ms))
        .expect(pubcomp).complete_with(success, after(1ms))
        .send(pubrel, after(100ms))
        .expect(pubcomp).complete_with(success, after(1ms));
    auto& broker = asio::make_service<test::test_broker>(ioc, executor, std::move(script));
    mqtt_client<test::test_stream> c(executor);
    c.brokers("127.0.0.1,127.0.0.1").async_run(asio::detached);
    int received = 0;
    std::function<void()> next = [&]() {
        c.async_receive([&](error_code ec, std::string, std::string, publish_props) { if (ec) return; ++received; next(); });
    };
    next();
    asio::steady_timer stop(executor);
    stop.expires_after(1500ms);
    stop.async_wait([&](error_code) { c.cancel(); });
    ioc.run_for(4s);
    BOOST_TEST(received == 1);                       // delivered exactly once
    BOOST_TEST(broker.received_all_expected());      // the retransmitted PUBREL got its PUBCOMP
}
