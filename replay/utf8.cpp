// native replay / differential driver for unit utf8.
// Runs the REAL validators of /repo/include/boost/mqtt5/detail against an
// independent code-point-level reference written from Unicode Table 3-7 and
// MQTT 5 (1.5.4, 4.7.1, 4.8.2).  String-level obligations are proved under
// loop contracts, so a CBMC trace describes one arbitrary iteration, not an
// input: this driver searches a boundary alphabet exhaustively (and then
// seeded random strings) for a concrete disagreeing input.
#include <boost/mqtt5/detail/topic_validation.hpp>
#include <cstdio>
#include <cstring>
#include <string>
#include <vector>
#include <random>
#include "replay/json_min.hpp"
using namespace boost::mqtt5::detail;

// ---- independent reference -------------------------------------------------
static bool decode_all(const std::string& s, std::vector<int>& cps) {
    size_t i = 0, n = s.size();
    auto B = [&](size_t k) { return (unsigned)(unsigned char)s[k]; };
    auto cont = [&](size_t k) { return k < n && B(k) >= 0x80 && B(k) <= 0xBF; };
    while (i < n) {
        unsigned b0 = B(i);
        if (b0 <= 0x7F) { cps.push_back(b0); i += 1; }
        else if (b0 >= 0xC2 && b0 <= 0xDF) {
            if (!cont(i + 1)) return false;
            cps.push_back(((b0 & 0x1F) << 6) | (B(i + 1) & 0x3F)); i += 2;
        } else if (b0 >= 0xE0 && b0 <= 0xEF) {
            if (!(i + 2 < n)) return false;
            unsigned lo = b0 == 0xE0 ? 0xA0 : 0x80, hi = b0 == 0xED ? 0x9F : 0xBF;
            if (!(B(i + 1) >= lo && B(i + 1) <= hi) || !cont(i + 2)) return false;
            cps.push_back(((b0 & 0x0F) << 12) | ((B(i + 1) & 0x3F) << 6) | (B(i + 2) & 0x3F)); i += 3;
        } else if (b0 >= 0xF0 && b0 <= 0xF4) {
            if (!(i + 3 < n)) return false;
            unsigned lo = b0 == 0xF0 ? 0x90 : 0x80, hi = b0 == 0xF4 ? 0x8F : 0xBF;
            if (!(B(i + 1) >= lo && B(i + 1) <= hi) || !cont(i + 2) || !cont(i + 3)) return false;
            cps.push_back(((b0 & 0x07) << 18) | ((B(i + 1) & 0x3F) << 12) | ((B(i + 2) & 0x3F) << 6) | (B(i + 3) & 0x3F)); i += 4;
        } else return false;
    }
    return true;
}
static bool cp_ok(int c) {
    if (c <= 0x1F) return false;
    if (c >= 0x7F && c <= 0x9F) return false;
    if (c >= 0xD800 && c <= 0xDFFF) return false;
    if (c >= 0xFDD0 && c <= 0xFDEF) return false;
    if ((c & 0xFFFE) == 0xFFFE) return false;
    return c <= 0x10FFFF;
}
static bool ref_utf8(const std::string& s, bool wild_ok) {
    std::vector<int> c; if (!decode_all(s, c)) return false;
    for (int x : c) { if (!cp_ok(x)) return false; if (!wild_ok && (x == '#' || x == '+')) return false; }
    return true;
}
static bool ref_string(const std::string& s) { return s.size() <= 65535 && ref_utf8(s, true); }
static bool ref_topic_name(const std::string& s) { return !s.empty() && s.size() <= 65535 && ref_utf8(s, false); }
static bool ref_alias_name(const std::string& s) { return s.size() <= 65535 && ref_utf8(s, false); }
static bool ref_share_name(const std::string& s) { return !s.empty() && ref_utf8(s, false); }
static bool ref_topic_filter(const std::string& s) {
    if (s.empty() || s.size() > 65535) return false;
    std::vector<int> c; if (!decode_all(s, c)) return false;
    for (size_t i = 0; i < c.size(); ++i) {
        if (!cp_ok(c[i])) return false;
        if (c[i] == '#') { // [MQTT-4.7.1-1]
            if (i + 1 != c.size()) return false;
            if (i != 0 && c[i - 1] != '/') return false;
        }
        if (c[i] == '+') { // [MQTT-4.7.1-2]
            if (i != 0 && c[i - 1] != '/') return false;
            if (i + 1 != c.size() && c[i + 1] != '/') return false;
        }
    }
    return true;
}
static bool ref_shared_filter(const std::string& s, bool wild) {
    if (s.empty() || s.size() > 65535) return false;
    if (s.compare(0, 7, "$share/") != 0) return false;
    auto k = s.find('/', 7);
    if (k == std::string::npos) return false;
    if (!ref_share_name(s.substr(7, k - 7))) return false;
    std::string rest = s.substr(k + 1);
    return wild ? ref_topic_filter(rest) : ref_topic_name(rest);
}
// ---- the real code ----------------------------------------------------------
struct Case { const char* name; bool (*real)(const std::string&); bool (*ref)(const std::string&); };
static bool r_string(const std::string& s) { return validate_mqtt_utf8(s) == validation_result::valid; }
static bool r_tname(const std::string& s) { return validate_topic_name(s) == validation_result::valid; }
static bool r_alias(const std::string& s) { return validate_topic_alias_name(s) == validation_result::valid; }
static bool r_share(const std::string& s) { return validate_shared_topic_name(s) == validation_result::valid; }
static bool r_filter(const std::string& s) { return validate_topic_filter(s) == validation_result::valid; }
static bool r_shared_w(const std::string& s) { return validate_shared_topic_filter(s, true) == validation_result::valid; }
static bool r_shared_n(const std::string& s) { return validate_shared_topic_filter(s, false) == validation_result::valid; }
static bool f_shared_w(const std::string& s) { return ref_shared_filter(s, true); }
static bool f_shared_n(const std::string& s) { return ref_shared_filter(s, false); }
static Case cases[] = {
    {"validate_mqtt_utf8", r_string, ref_string}, {"validate_topic_name", r_tname, ref_topic_name},
    {"validate_topic_alias_name", r_alias, ref_alias_name}, {"validate_shared_topic_name", r_share, ref_share_name},
    {"validate_topic_filter", r_filter, ref_topic_filter},
    {"validate_shared_topic_filter(wild)", r_shared_w, f_shared_w}, {"validate_shared_topic_filter(nowild)", r_shared_n, f_shared_n},
};
static unsigned long evals = 0, disagreements = 0;
static std::string hex(const std::string& s) { std::string o; char b[8]; for (unsigned char c : s) { std::snprintf(b, 8, "%02X ", c); o += b; } return o; }
static bool try_one(const Case& c, const std::string& s, bool report) {
    ++evals;
    // flush against the end of a heap block so that over-reads trap under ASan
    std::string copy(s.data(), s.size());
    bool a = c.real(copy), b = c.ref(copy);
    if (a != b) {
        ++disagreements;
        if (report) std::printf("CONFIRMED %s(\"%s\") [%zu bytes] = %s on the real code, reference says %s\n", c.name, hex(s).c_str(), s.size(), a ? "valid" : "not valid", b ? "valid" : "not valid");
        return true;
    }
    return false;
}
static const unsigned char ALPHA[] = {0x00, 0x1F, 0x20, '#', '+', '/', 'a', 0x7F, 0x80, 0x9F, 0xA0, 0xBF, 0xC0, 0xC2, 0xC3, 0xDF, 0xE0, 0xED, 0xEF, 0xF0, 0xF4, 0xF5, 0xFE, 0xFF};
static bool search(const Case& c, int maxlen, const std::string& prefix, bool report, bool stop) {
    const int A = sizeof(ALPHA);
    bool found = false;
    for (int len = 0; len <= maxlen; ++len) {
        std::vector<int> idx(len, 0);
        for (;;) {
            std::string s = prefix; for (int k = 0; k < len; ++k) s += char(ALPHA[idx[k]]);
            if (try_one(c, s, report && !found)) { found = true; if (stop) return true; }
            int p = len - 1; while (p >= 0 && ++idx[p] == A) idx[p--] = 0;
            if (p < 0) break;
        }
    }
    return found;
}
static std::string enc(int cp) { // generalized encoder (also produces surrogates / > 10FFFF forms)
    std::string s;
    if (cp < 0x80) s += char(cp);
    else if (cp < 0x800) { s += char(0xC0 | (cp >> 6)); s += char(0x80 | (cp & 0x3F)); }
    else if (cp < 0x10000) { s += char(0xE0 | (cp >> 12)); s += char(0x80 | ((cp >> 6) & 0x3F)); s += char(0x80 | (cp & 0x3F)); }
    else { s += char(0xF0 | ((cp >> 18) & 7)); s += char(0x80 | ((cp >> 12) & 0x3F)); s += char(0x80 | ((cp >> 6) & 0x3F)); s += char(0x80 | (cp & 0x3F)); }
    return s;
}
int main(int argc, char** argv) {
    if (argc < 2) return 2;
    bool exhaustive = std::strcmp(argv[1], "--exhaustive") == 0;
    std::string fn;
    if (!exhaustive) { ReplayFile rf(argv[1]); fn = rf.str("function"); }
    unsigned seed = std::getenv("VERIF_SEED") ? unsigned(std::atoi(std::getenv("VERIF_SEED"))) : 1u;
    bool found = false;
    for (auto& c : cases) {
        std::string base = c.name; auto p = base.find('('); if (p != std::string::npos) base = base.substr(0, p);
        // a failed obligation in a callee (pop_front_unichar, validate_mqtt_utf8_char,
        // validate_impl<...>) shows through every validator: search all of them
        bool relevant = exhaustive || fn.find(base) != std::string::npos || fn.find("pop_front") != std::string::npos ||
                        fn.find("utf8_char") != std::string::npos || fn.find("validate_impl") != std::string::npos || fn.find("string_pair") != std::string::npos;
        if (!relevant) continue;
        std::string prefix = (base == "validate_shared_topic_filter") ? "$share/" : "";
        int maxlen = exhaustive ? 4 : 3;
        if (search(c, maxlen, prefix, true, !exhaustive)) { found = true; if (!exhaustive) break; }
        if (prefix.size()) { if (search(c, 3, "", true, !exhaustive)) { found = true; if (!exhaustive) break; } }
        // every single scalar value (and the surrogate / out-of-range forms)
        for (int cp = 0; cp <= 0x1FFFFF; cp += 1) {
            if (try_one(c, prefix + (prefix.size() ? "n/" : "") + enc(cp), !found)) { found = true; if (!exhaustive) break; }
            if (!exhaustive && cp > 0x11FFFF) break;
        }
        if (found && !exhaustive) break;
        // all 2-byte strings
        if (exhaustive || !found) for (int a = 0; a < 256 && !(found && !exhaustive); ++a) for (int b = 0; b < 256; ++b) {
            std::string s = prefix; s += char(a); s += char(b);
            if (try_one(c, s, !found)) { found = true; if (!exhaustive) break; }
        }
        if (found && !exhaustive) break;
        std::mt19937 rng(seed);
        int N = exhaustive ? 300000 : 100000;
        for (int k = 0; k < N; ++k) {
            std::string s = prefix; int len = rng() % 12;
            for (int j = 0; j < len; ++j) s += (rng() % 3) ? char(ALPHA[rng() % sizeof(ALPHA)]) : char(rng() & 0xFF);
            if (try_one(c, s, !found)) { found = true; if (!exhaustive) break; }
        }
        // length limits
        for (size_t L : {size_t(65534), size_t(65535), size_t(65536)}) {
            std::string s = prefix + std::string(L - prefix.size() - (prefix.size() ? 2 : 0), 'a'); if (prefix.size()) s.insert(prefix.size(), "n/");
            if (try_one(c, s, !found)) found = true;
        }
        if (found && !exhaustive) break;
    }
    std::printf("native differential: %lu evaluations, %lu disagreements\n", evals, disagreements);
    if (!found) std::printf("NOT-CONFIRMED\n");
    return 0;
}
