// Native demonstration for defect D7 (property C14): an acknowledgement whose
// number of reason codes differs from the number of requested topics must never
// be surfaced as success.  Before the fix, inadmissible codes were filtered out
// BEFORE the count check, so SUBACK {0x00, 0x04, 0x01} for TWO topics (three
// codes, one of them not a SUBACK code) completed async_subscribe with success
// and {0x00, 0x01}; the same for UNSUBACK {0x00, 0x04, 0x11}.
//
// exit 0: property held (the ack is treated as malformed: DISCONNECT 0x81,
// reconnect, resend, and only the later well-formed ack is surfaced)
#define BOOST_TEST_MODULE d7_ack_count
#include <boost/test/included/unit_test.hpp>

#include <boost/mqtt5/mqtt_client.hpp>
#include <boost/mqtt5/reason_codes.hpp>
#include <boost/mqtt5/types.hpp>

#include <boost/asio/detached.hpp>
#include <boost/asio/io_context.hpp>

#include <chrono>
#include <string>
#include <vector>

#include "test_common/message_exchange.hpp"
#include "test_common/packet_util.hpp"
#include "test_common/test_service.hpp"
#include "test_common/test_stream.hpp"

using namespace boost::mqtt5;
using test::after;
using namespace std::chrono_literals;

namespace {
const std::string connect_pkt = encoders::encode_connect(
    "", std::nullopt, std::nullopt, 60, false, {}, std::nullopt);
const std::string connack_pkt = encoders::encode_connack(
    false, reason_codes::success.value(), {});
struct result { int calls = 0; error_code ec; std::vector<reason_code> rcs; bool all = false; };
}

BOOST_AUTO_TEST_CASE(suback_with_a_wrong_count_is_never_a_success) {
    std::vector<subscribe_topic> topics = {
        subscribe_topic { "a/b", subscribe_options {} },
        subscribe_topic { "c/d", subscribe_options {} } };
    const auto subscribe = encoders::encode_subscribe(1, topics, subscribe_props {});
    const auto bad = encoders::encode_suback(1, { uint8_t(0x00), uint8_t(0x04), uint8_t(0x01) }, suback_props {});
    const auto good = encoders::encode_suback(1, { uint8_t(0x02), uint8_t(0x02) }, suback_props {});
    const auto disconnect = encoders::encode_disconnect(
        reason_codes::malformed_packet.value(),
        test::dprops_with_reason_string(
            "Malformed SUBACK: does not contain a valid Reason Code for every Topic Filter"));
    error_code success {};
    test::msg_exchange broker_side;
    broker_side
        .expect(connect_pkt).complete_with(success, after(1ms)).reply_with(connack_pkt, after(2ms))
        .expect(subscribe).complete_with(success, after(1ms)).reply_with(bad, after(2ms))
        .expect(disconnect).complete_with(success, after(1ms))
        .expect(connect_pkt).complete_with(success, after(1ms)).reply_with(connack_pkt, after(2ms))
        .expect(subscribe).complete_with(success, after(1ms)).reply_with(good, after(2ms));
    result r;
    asio::io_context ioc;
    auto executor = ioc.get_executor();
    auto& broker = asio::make_service<test::test_broker>(ioc, executor, std::move(broker_side));
    mqtt_client<test::test_stream> c(executor);
    c.brokers("127.0.0.1,127.0.0.1").async_run(asio::detached);
    c.async_subscribe(topics, subscribe_props {},
        [&r, &c](error_code ec, std::vector<reason_code> rcs, suback_props) {
            ++r.calls; r.ec = ec; r.rcs = std::move(rcs); c.cancel(); });
    ioc.run_for(3s);
    r.all = broker.received_all_expected();
    BOOST_TEST(r.calls == 1);
    BOOST_TEST(!r.ec);
    BOOST_TEST_REQUIRE(r.rcs.size() == 2u);
    // only the verdicts of the well-formed SUBACK may be surfaced
    BOOST_TEST(r.rcs[0] == reason_codes::granted_qos_2);
    BOOST_TEST(r.rcs[1] == reason_codes::granted_qos_2);
    BOOST_TEST(r.all);
}

BOOST_AUTO_TEST_CASE(unsuback_with_a_wrong_count_is_never_a_success) {
    std::vector<std::string> topics = { "a/b", "c/d" };
    const auto unsubscribe = encoders::encode_unsubscribe(1, topics, unsubscribe_props {});
    const auto bad = encoders::encode_unsuback(1, { uint8_t(0x00), uint8_t(0x04), uint8_t(0x11) }, unsuback_props {});
    const auto good = encoders::encode_unsuback(1, { uint8_t(0x00), uint8_t(0x00) }, unsuback_props {});
    const auto disconnect = encoders::encode_disconnect(
        reason_codes::malformed_packet.value(),
        test::dprops_with_reason_string(
            "Malformed UNSUBACK: does not contain a valid Reason Code for every Topic Filter"));
    error_code success {};
    test::msg_exchange broker_side;
    broker_side
        .expect(connect_pkt).complete_with(success, after(1ms)).reply_with(connack_pkt, after(2ms))
        .expect(unsubscribe).complete_with(success, after(1ms)).reply_with(bad, after(2ms))
        .expect(disconnect).complete_with(success, after(1ms))
        .expect(connect_pkt).complete_with(success, after(1ms)).reply_with(connack_pkt, after(2ms))
        .expect(unsubscribe).complete_with(success, after(1ms)).reply_with(good, after(2ms));
    result r;
    asio::io_context ioc;
    auto executor = ioc.get_executor();
    auto& broker = asio::make_service<test::test_broker>(ioc, executor, std::move(broker_side));
    mqtt_client<test::test_stream> c(executor);
    c.brokers("127.0.0.1,127.0.0.1").async_run(asio::detached);
    c.async_unsubscribe(topics, unsubscribe_props {},
        [&r, &c](error_code ec, std::vector<reason_code> rcs, unsuback_props) {
            ++r.calls; r.ec = ec; r.rcs = std::move(rcs); c.cancel(); });
    ioc.run_for(3s);
    r.all = broker.received_all_expected();
    BOOST_TEST(r.calls == 1);
    BOOST_TEST(!r.ec);
    BOOST_TEST_REQUIRE(r.rcs.size() == 2u);
    BOOST_TEST(r.rcs[0] == reason_codes::success);
    BOOST_TEST(r.rcs[1] == reason_codes::success);
    BOOST_TEST(r.all);
}
