// Native demonstration for defect D9 (property C01: "the reason code and properties handed to the
// handler are the ones contained in that acknowledgement").  A QoS 2 publish is acknowledged by a
// PUBCOMP that carries a Reason String and a User Property; before the fix
// publish_send_op::operator()(on_pubcomp, ...) decoded them and then completed with
// complete(ec, id, *rc) -- default-constructed pubcomp_props -- so the handler never saw them
// (the QoS 1 path passes the PUBACK's properties on).
// exit 0: the handler received the PUBCOMP's properties.
#define BOOST_TEST_MODULE d9_pubcomp_props
#include <boost/test/included/unit_test.hpp>
#include <boost/mqtt5/mqtt_client.hpp>
#include <boost/mqtt5/types.hpp>
#include <boost/asio/detached.hpp>
#include <boost/asio/io_context.hpp>
#include <string>
#include "test_common/message_exchange.hpp"
#include "test_common/packet_util.hpp"
#include "test_common/test_broker.hpp"
#include "test_common/test_service.hpp"
#include "test_common/test_stream.hpp"
using namespace boost::mqtt5;
using test::after;
using namespace std::chrono_literals;

BOOST_AUTO_TEST_CASE(qos2_handler_gets_the_pubcomp_properties) {
    error_code success {};
    const std::string connect = encoders::encode_connect("", std::nullopt, std::nullopt, 60, false, {}, std::nullopt);
    const std::string connack = encoders::encode_connack(false, reason_codes::success.value(), {});
    const std::string publish = encoders::encode_publish(1, "t", "p", qos_e::exactly_once, retain_e::no, dup_e::no, {});
    const std::string pubrec = encoders::encode_pubrec(1, uint8_t(0x00), {});
    const std::string pubrel = encoders::encode_pubrel(1, uint8_t(0x00), {});
    pubcomp_props cp;
    cp[prop::reason_string] = "all done";
    cp[prop::user_property].emplace_back("k", "v");
    const std::string pubcomp = encoders::encode_pubcomp(1, uint8_t(0x00), cp);
    test::msg_exchange script;
    script
        .expect(connect).complete_with(success, after(0ms)).reply_with(connack, after(0ms))
        .expect(publish).complete_with(success, after(1ms)).reply_with(pubrec, after(2ms))
        .expect(pubrel).complete_with(success, after(1ms)).reply_with(pubcomp, after(2ms));
    asio::io_context ioc;
    auto executor = ioc.get_executor();
    auto& broker = asio::make_service<test::test_broker>(ioc, executor, std::move(script));
    mqtt_client<test::test_stream> c(executor);
    c.brokers("127.0.0.1").async_run(asio::detached);
    int calls = 0; error_code got_ec; reason_code got_rc; pubcomp_props got;
    c.async_publish<qos_e::exactly_once>("t", "p", retain_e::no, publish_props {},
        [&](error_code ec, reason_code rc, pubcomp_props props) { ++calls; got_ec = ec; got_rc = rc; got = std::move(props); c.cancel(); });
    ioc.run_for(3s);
    BOOST_TEST(calls == 1);
    BOOST_TEST(!got_ec);
    BOOST_TEST(broker.received_all_expected());
    BOOST_TEST_REQUIRE(got[prop::reason_string].has_value());
    BOOST_TEST(*got[prop::reason_string] == "all done");
    BOOST_TEST_REQUIRE(got[prop::user_property].size() == 1u);
    BOOST_TEST(got[prop::user_property][0].first == "k");
    BOOST_TEST(got[prop::user_property][0].second == "v");
}
