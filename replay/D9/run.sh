#!/bin/sh
# usage: run.sh [<dir holding include/>]   (default /repo); needs /repo/test/include
set -e
HERE="$(cd "$(dirname "$0")" && pwd)"
ROOT="${1:-/repo}"
OUT="$(mktemp -d)"
trap 'rm -rf "$OUT"' EXIT
g++ -std=c++17 -O1 -Wno-deprecated-declarations -I"$ROOT/include" -I/repo/test/include "$HERE/pubcomp_props.cpp" -o "$OUT/demo" -lpthread
"$OUT/demo" --log_level=error
