// native replay / search driver for unit decoders (C18/C19): runs the REAL
// decode_* functions of /repo on packets placed flush against the end of a heap
// block (ASan traps any read past the packet) and reports over-reads,
// escaping exceptions, and well-formed packets that fail to decode.
#include <boost/mqtt5/impl/codecs/message_decoders.hpp>
#include <boost/mqtt5/impl/codecs/message_encoders.hpp>
#include <cstdio>
#include <cstring>
#include <cstdlib>
#include <string>
#include <vector>
#include <random>
#include "replay/json_min.hpp"
using namespace boost::mqtt5;

static unsigned long evals = 0, findings = 0;
static std::string hex(const std::string& s) { std::string o; char b[8]; for (unsigned char c : s) { std::snprintf(b, 8, "%02X ", c); o += b; } return o; }

// body = bytes after the fixed header; declared = Remaining Length handed to the decoder
template <typename F> static bool run(const char* what, F decode, const std::string& body) {
    ++evals;
    // the decoders take std::string::const_iterator: keep the packet in a
    // std::string whose capacity equals its size so that the heap block ends
    // right behind the last byte (libstdc++ allocates capacity + 1 for the NUL;
    // ASan still flags reads beyond that single byte)
    std::string pkt; pkt.reserve(body.size() < 16 ? 16 : body.size()); pkt.assign(body); pkt.shrink_to_fit();
    if (pkt.size() < 16) { // defeat the small-string buffer: force heap storage
        std::string big(body); big.append(32, '\0'); big.resize(body.size());
        pkt.swap(big);
    }
    auto it = pkt.cbegin();
    try {
        auto rv = decode(uint32_t(body.size()), it);
        if (it < pkt.cbegin() || it > pkt.cend()) {
            std::printf("CONFIRMED %s: iterator left the packet (offset %ld of %zu) on body [%s]\n", what, long(it - pkt.cbegin()), pkt.size(), hex(body).c_str());
            ++findings; return true;
        }
    } catch (const std::exception& e) {
        std::printf("CONFIRMED %s: exception '%s' escapes the decoder on body [%s]\n", what, e.what(), hex(body).c_str());
        ++findings; return true;
    }
    return false;
}
static std::string varint(uint32_t v) { std::string s; do { uint8_t b = v & 0x7F; v >>= 7; if (v) b |= 0x80; s += char(b); } while (v); return s; }

int main(int argc, char** argv) {
    if (argc < 2) return 2;
    bool exhaustive = std::strcmp(argv[1], "--exhaustive") == 0;
    unsigned seed = std::getenv("VERIF_SEED") ? unsigned(std::atoi(std::getenv("VERIF_SEED"))) : 1u;
    std::mt19937 rng(seed);
    bool found = false;
    auto d_puback = [](uint32_t n, decoders::byte_citer& it) { return decoders::decode_puback(n, it).has_value(); };
    auto d_pubrec = [](uint32_t n, decoders::byte_citer& it) { return decoders::decode_pubrec(n, it).has_value(); };
    auto d_pubrel = [](uint32_t n, decoders::byte_citer& it) { return decoders::decode_pubrel(n, it).has_value(); };
    auto d_pubcomp = [](uint32_t n, decoders::byte_citer& it) { return decoders::decode_pubcomp(n, it).has_value(); };
    auto d_connack = [](uint32_t n, decoders::byte_citer& it) { return decoders::decode_connack(n, it).has_value(); };
    auto d_suback = [](uint32_t n, decoders::byte_citer& it) { return decoders::decode_suback(n, it).has_value(); };
    auto d_unsuback = [](uint32_t n, decoders::byte_citer& it) { return decoders::decode_unsuback(n, it).has_value(); };
    auto d_disconnect = [](uint32_t n, decoders::byte_citer& it) { return decoders::decode_disconnect(n, it).has_value(); };
    auto d_auth = [](uint32_t n, decoders::byte_citer& it) { return decoders::decode_auth(n, it).has_value(); };
    auto d_pub0 = [](uint32_t n, decoders::byte_citer& it) { return decoders::decode_publish(0x30, n, it).has_value(); };
    auto d_pub1 = [](uint32_t n, decoders::byte_citer& it) { return decoders::decode_publish(0x32, n, it).has_value(); };
    // property length larger than what is left (oversize), at every position
    for (uint32_t declared : {1u, 2u, 5u, 127u, 128u, 300u, 70000u, 268435455u}) {
        std::string pl = varint(declared);
        found |= run("decode_puback", d_puback, std::string("\x00", 1) + pl);
        found |= run("decode_pubrec", d_pubrec, std::string("\x00", 1) + pl);
        found |= run("decode_pubrel", d_pubrel, std::string("\x00", 1) + pl);
        found |= run("decode_pubcomp", d_pubcomp, std::string("\x00", 1) + pl);
        found |= run("decode_disconnect", d_disconnect, std::string("\x00", 1) + pl);
        found |= run("decode_auth", d_auth, std::string("\x00", 1) + pl);
        found |= run("decode_connack", d_connack, std::string("\x00\x00", 2) + pl);
        found |= run("decode_suback", d_suback, std::string("\x00\x01", 2) + pl + std::string("\x00", 1));
        found |= run("decode_unsuback", d_unsuback, std::string("\x00\x01", 2) + pl + std::string("\x00", 1));
        found |= run("decode_publish(qos0)", d_pub0, std::string("\x00\x01t", 3) + pl);
        found |= run("decode_publish(qos0)", d_pub0, std::string("\x00\x01t", 3) + pl + "xy");
        found |= run("decode_publish(qos1)", d_pub1, std::string("\x00\x01t\x00\x01", 5) + pl + "xy");
        if (found && !exhaustive) break;
    }
    // random / truncated bodies
    int N = exhaustive ? 400000 : 60000;
    for (int k = 0; k < N && !(found && !exhaustive); ++k) {
        int len = rng() % 24; std::string b;
        for (int j = 0; j < len; ++j) { unsigned r = rng(); b += (r % 4 == 0) ? char(r >> 8) : char((r >> 8) % 48); }
        switch (rng() % 11) {
            case 0: found |= run("decode_puback", d_puback, b); break;
            case 1: found |= run("decode_pubrec", d_pubrec, b); break;
            case 2: found |= run("decode_pubrel", d_pubrel, b); break;
            case 3: found |= run("decode_pubcomp", d_pubcomp, b); break;
            case 4: found |= run("decode_connack", d_connack, b); break;
            case 5: found |= run("decode_suback", d_suback, b); break;
            case 6: found |= run("decode_unsuback", d_unsuback, b); break;
            case 7: found |= run("decode_disconnect", d_disconnect, b); break;
            case 8: found |= run("decode_auth", d_auth, b); break;
            case 9: found |= run("decode_publish(qos0)", d_pub0, b); break;
            case 10: found |= run("decode_publish(qos1)", d_pub1, b); break;
        }
    }
    std::printf("native differential: %lu evaluations, %lu disagreements\n", evals, findings);
    if (!found) std::printf("NOT-CONFIRMED\n");
    return 0;
}
