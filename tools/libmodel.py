"""Class-2 entities: library types and functions that have a C model in
models/*.h.  Every model function carries the library precondition as a
MODEL_PRE assertion, so a call that would be UB in libstdc++ is a failed,
named obligation."""
import re
from cxx2c import TI, Unsupported, split_top, strip_cv, sanitize
from cxxast import qt, qt_sugar, has_body, params_of, body_of

SV_NAMES = ('std::basic_string_view<char>', 'std::string_view', 'std::basic_string_view<char, std::char_traits<char>>',
            'basic_string_view<char>', 'string_view', 'basic_string_view<char, std::char_traits<char>>')
STR_NAMES = ('std::basic_string<char>', 'std::string', 'std::__cxx11::basic_string<char>',
             'std::basic_string<char, std::char_traits<char>, std::allocator<char>>', 'basic_string<char>',
             'basic_string<char, std::char_traits<char>, std::allocator<char>>', 'std::__cxx11::string', 'string')
IT_NAMES = ('__gnu_cxx::__normal_iterator<const char *, std::basic_string<char>>',
            '__gnu_cxx::__normal_iterator<const char *, std::__cxx11::basic_string<char>>',
            'std::basic_string<char>::const_iterator', 'std::string::const_iterator',
            'boost::mqtt5::detail::byte_citer', 'byte_citer', 'std::basic_string<char>::iterator',
            '__gnu_cxx::__normal_iterator<char *, std::basic_string<char>>',
            '__gnu_cxx::__normal_iterator<char *, std::__cxx11::basic_string<char>>',
            '__normal_iterator<const char *, std::basic_string<char>>')
EC_NAMES = ('boost::system::error_code', 'error_code', 'boost::mqtt5::error_code')

SV_METHODS = {
    'size': 'sv_size', 'length': 'sv_size', 'empty': 'sv_empty', 'front': 'sv_front', 'back': 'sv_back',
    'remove_prefix': 'sv_remove_prefix', 'remove_suffix': 'sv_remove_suffix', 'compare': 'sv_compare',
    'find_first_of': 'sv_find_first_of', 'substr': 'sv_substr', 'operator[]': 'sv_at', 'data': 'sv_data',
    'begin': 'sv_begin', 'end': 'sv_end', 'cbegin': 'sv_begin', 'cend': 'sv_end', 'find': 'sv_find_first_of',
}
# methods whose C model returns a pointer to the element (C++ returns a reference)
SV_REF_RESULT = {'front', 'back', 'operator[]'}
SV_DEFAULTS = {'find_first_of': {1: '0ul'}, 'find': {1: '0ul'}, 'substr': {0: '0ul', 1: 'SV_NPOS'}}

STR_METHODS = {
    'size': 'str_size', 'length': 'str_size', 'empty': 'str_empty', 'push_back': 'str_push_back',
    'operator[]': 'str_at', 'data': 'str_data', 'begin': 'str_begin', 'end': 'str_end', 'cbegin': 'str_begin',
    'cend': 'str_end', 'front': 'str_front', 'back': 'str_back', 'resize': 'str_resize', 'erase': 'str_erase',
    'clear': 'str_clear', 'append': 'str_append', 'reserve': 'str_reserve',
}
STR_REF_RESULT = {'operator[]', 'front', 'back'}


class Lib:
    def __init__(self):
        self.gen = {}      # generated macro instantiations name -> text
        self.gen_order = []
        self.lambdas = {}

    def gen_once(self, name, text):
        if name not in self.gen:
            self.gen[name] = text
            self.gen_order.append(name)
        return name

    # ---------------------------------------------------------------- types
    def type(self, em, s):
        s = s.strip()
        if s in SV_NAMES:
            return TI('sv', 'sv_t', name=s)
        if s in STR_NAMES:
            return TI('str', 'str_t', name=s)
        if s in IT_NAMES:
            return TI('it', 'it_t', name=s)
        if s in EC_NAMES:
            return TI('ec', 'ec_t', name=s)
        m = re.match(r'^(?:std::)?optional<(.*)>$', s)
        if m:
            e = em.T(m.group(1))
            nm = 'opt_' + e.mangle()
            self.gen_once(nm, 'DEF_OPT(%s, %s)' % (nm, e.c))
            return TI('opt', nm, elem=e, name=s)
        m = re.match(r'^(?:std::)?pair<(.*)>$', s)
        if m:
            a, b = [em.T(x) for x in split_top(m.group(1))]
            nm = 'pair_%s_%s' % (a.mangle(), b.mangle())
            self.gen_once(nm, 'DEF_PAIR(%s, %s, %s)' % (nm, a.c, b.c))
            return TI('pair', nm, args=[a, b], name=s)
        m = re.match(r'^(?:std::)?tuple_element<(\d+), (?:const )?std::tuple<(.*)>>::type$', s)
        if m:
            parts = split_top(m.group(2))
            if int(m.group(1)) < len(parts):
                return em.T(parts[int(m.group(1))])
        m = re.match(r'^(?:std::)?tuple_element<(\d+), (.*)>::type$', s)
        if m:
            outer = em.T(m.group(2))
            if outer.kind == 'pair':
                return outer.args[int(m.group(1))]
            if outer.kind == 'tuple':
                return outer.args[int(m.group(1))]
        m = re.match(r'^__gnu_cxx::__alloc_traits<std::allocator<(.*)>, (.*)>::(?:value_type|reference)$', s)
        if m:
            return em.T(split_top(m.group(1))[0])
        m = re.match(r'^(?:std::)?unique_ptr<(.*)>$', s)
        if m:
            e = em.T(split_top(m.group(1))[0])
            if e.kind in ('str', 'rec', 'int'):
                return TI('uptr', e.c + ' *', elem=e, name=s)
        m = re.match(r'^(?:std::)?vector<(.*)>$', s)
        if m:
            parts = split_top(m.group(1))
            e = em.T(parts[0])
            if e.kind in ('int', 'rec', 'ptr'):
                nm = 'vec_' + e.mangle()
                self.gen_once(nm, 'DEF_VEC(%s, %s)' % (nm, e.c))
                return TI('vec', nm, elem=e, name=s)
        m = re.match(r'^(?:std::)?deque<(.*)>$', s)
        if m:
            # std::deque<T>: same model as vector (front removal shifts)
            e = em.T(split_top(m.group(1))[0])
            if e.kind in ('int', 'rec', 'ptr', 'opq'):
                nm = 'vec_' + ('handler' if e.kind == 'opq' else e.mangle())
                self.gen_once(nm, 'DEF_VEC(%s, %s)' % (nm, e.c))
                return TI('vec', nm, elem=e, name=s)
        m = re.match(r'^std::_Deque_iterator<(.*)>$', s)
        if m:
            e = em.T(split_top(m.group(1))[0])
            if e.kind in ('int', 'rec', 'ptr', 'opq'):
                return TI('vit', e.c + ' *', elem=e, name=s)
        m = re.match(r'^__gnu_cxx::__normal_iterator<(.*) \*, std::vector<(.*)>>$', s)
        if m:
            parts = split_top(m.group(2))
            e = em.T(parts[0])
            if e.kind in ('int', 'rec', 'ptr'):
                return TI('vit', e.c + ' *', elem=e, name=s)
        m = re.match(r'^(?:std::)?chrono::duration<(long|long long|int), std::ratio<1, (\d+)>>$', s)
        if m:
            return TI('dur', 'long', name=s, n=int(m.group(2)))
        m = re.match(r'^(?:std::)?chrono::duration<(long|long long|int)(?:, std::ratio<1(?:, 1)?>)?>$', s)
        if m:
            return TI('dur', 'long', name=s, n=1)
        if s in ('boost::mqtt5::detail::duration', 'duration', 'std::chrono::milliseconds'):
            return TI('dur', 'long', name=s, n=1000)
        if s in ('std::chrono::seconds',):
            return TI('dur', 'long', name=s, n=1)
        return None

    def after_vardecl(self, em, name, ti, init):
        return None

    def tuple_get(self, em, ti, base, i):
        if ti.kind == 'pair':
            return ('%s.%s' % (base, ('first', 'second')[i]), ti.args[i])
        return None

    def enum_constant(self, em, n):
        # enumerators of library / out-of-filter enums: error conditions are named constants
        t = qt(n)
        if 'error' in t or 'errc' in t:
            return self.ec_const(em, n['referencedDecl']['name'])
        # any other library enumerator: a named constant, distinct from the other
        # enumerators met (only equality is meaningful)
        nm = 'LIBENUM_' + sanitize(em.short_type(t)) + '_' + sanitize(n['referencedDecl']['name'])
        if nm not in em.lib_enums:
            em.lib_enums.append(nm)
        return nm

    def global_ref(self, em, n):
        nm = n['referencedDecl'].get('name')
        if nm == 'nullopt':
            return '0 /*nullopt*/'
        if nm == 'npos':
            return 'SV_NPOS'
        return None

    def member(self, em, n, base, b):
        bti = em.T(qt(base))
        nm = n['name']
        arrow = n.get('isArrow')
        if bti.kind == 'ptr' and arrow:
            inner = bti.elem
        else:
            inner = bti
        if inner.kind == 'pair' and nm in ('first', 'second'):
            return ('%s->%s' if arrow else '%s.%s') % (b, nm)
        return None

    def cast(self, em, n, ti, sub):
        return None

    # ---------------------------------------------------------- operators
    def binop(self, em, n, op, a, b):
        ta, tb = em.T(qt(a)), em.T(qt(b))
        if ta.kind == 'it' or tb.kind == 'it':
            # built-in operators never apply to class-type iterators
            return None
        return None

    def unop(self, em, n, op, sub):
        return None

    # -------------------------------------------------------- construction
    def construct(self, em, n, ti):
        args = [a for a in n.get('inner', [])]
        if ti.kind == 'opt':
            if not args:
                return '%s_none()' % ti.c
            at = em.T(qt(args[0]))
            if at.kind == 'nullopt':
                return '%s_none()' % ti.c
            if at.kind == 'opt':
                return em.e(args[0])
            lit = self._strlit(args[0])
            if lit is not None and ti.c in ('opt_str_t', 'opt_sv_t'):
                return '%s_some(%s)' % (ti.c, self.sv_literal(em, lit))
            return '%s_some(%s)' % (ti.c, em.e(args[0]))
        if ti.kind == 'nullopt':
            return '0'
        if ti.kind in ('pair', 'vec') and len(args) == 0:
            return '((%s){0})' % ti.c
        if ti.kind == 'vec' and len(args) == 1 and em.T(qt(args[0])).kind == 'vec':
            return em.e(args[0])
        if ti.kind == 'vec':
            real = [a for a in args if a.get('kind') != 'CXXDefaultArgExpr']
            if len(real) == 2 and em.T(qt(real[0])).kind == 'int' and em.T(qt(real[1])).c == ti.elem.c:
                # vector(n, value)
                return '%s_fill(%s, %s)' % (ti.c, em.e(real[0]), em.e(real[1]))
            if len(real) == 0:
                return '((%s){0})' % ti.c
        if ti.kind == 'pair':
            if len(args) == 2:
                return '%s_make(%s, %s)' % (ti.c, em.e(args[0]), em.e(args[1]))
            if len(args) == 1:
                return em.e(args[0])
        if ti.kind == 'sv':
            if len(args) == 1:
                at = em.T(qt(args[0]))
                if at.kind == 'sv':
                    return em.e(args[0])
                if at.kind == 'str':
                    return 'sv_from_str(%s)' % em.addr(args[0])
                if at.kind == 'ptr' and args[0].get('kind') in ('ImplicitCastExpr',) and self._strlit(args[0]) is not None:
                    return self.sv_literal(em, self._strlit(args[0]))
            if len(args) == 0:
                return 'sv_empty_view()'
        if ti.kind == 'ec':
            real = [a for a in args if a.get('kind') != 'CXXDefaultArgExpr']
            if len(real) == 0:
                return 'EC_OK'
            if len(real) == 1:
                return self.ec_val(em, real[0])
        if ti.kind == 'dur':
            if len(args) == 1:
                at = em.T(qt(args[0]))
                if at.kind == 'dur' and at.n != ti.n and at.n and ti.n:
                    # duration_cast-free implicit conversion is only allowed to a finer unit
                    return '(%s * %dl)' % (em.e(args[0]), ti.n // at.n)
                return '((long)%s)' % em.e(args[0])
            if len(args) == 0:
                return '0l'
        if ti.kind in ('it', 'vit'):
            if len(args) == 1:
                return em.e(args[0])
            if len(args) == 0:
                return '((%s)0)' % ti.c
        if ti.kind == 'str':
            if len(args) == 1 and em.T(qt(args[0])).kind == 'str':
                return em.e(args[0])
            if len(args) == 0:
                return 'sv_empty_view()'
            real = [a for a in args if a.get('kind') != 'CXXDefaultArgExpr']
            if len(real) == 1 and self._strlit(real[0]) is not None:
                return self.sv_literal(em, self._strlit(real[0]))
            if len(real) == 2 and em.T(qt(real[0])).kind == 'it' and em.T(qt(real[1])).kind == 'it':
                # std::string(first, last): requires [first,last) to be a valid range
                return 'str_from_range(%s, %s)' % (em.e(real[0]), em.e(real[1]))
        if ti.kind == 'opq':
            if len(args) == 1 and em.T(qt(args[0])).kind == 'opq':
                return em.e(args[0])
        if ti.kind == 'uptr':
            # unique_ptr(): null; unique_ptr(unique_ptr&&): the pointer changes hands
            # (the moved-from pointer is left as it was: it is never read again in /repo's uses)
            if len(args) == 0:
                return '((%s)0)' % ti.c
            if len(args) == 1 and em.T(qt(args[0])).kind == 'uptr':
                return em.e(args[0])
        return None

    def _strlit(self, n):
        while n.get('kind') in ('ImplicitCastExpr',):
            n = n['inner'][0]
        if n.get('kind') == 'StringLiteral':
            return n['value']
        return None

    def sv_literal(self, em, lit):
        k = len([x for x in self.gen if x.startswith('svlit_')])
        nm = 'svlit_%d' % k
        body = lit[1:-1]
        n = len(bytes(body, 'utf-8').decode('unicode_escape'))
        if k >= 32:
            raise Unsupported('more than 32 string literals bound to string_views')
        self.gen_once(nm, 'DEF_SV_LITERAL(%s, %s, %d, %d)' % (nm, lit, n, k))
        em.global_init.insert(0, 'svlit_tab[%d] = %s;' % (k, lit))
        return '%s()' % nm

    # --------------------------------------------------------------- calls
    def call(self, em, n, rd, full, cnode, args):
        name = (rd or {}).get('name')
        if name in ('move', 'forward') and len(args) == 1:
            x = args[0]
            while x.get('kind') in ('ParenExpr', 'ImplicitCastExpr'):
                x = x['inner'][0]
            if name == 'move' and x.get('kind') == 'UnaryOperator' and x.get('opcode') == '*' and x['inner'][0].get('kind') == 'CXXThisExpr' and em.opaque_ok and getattr(getattr(em, 'spec', None), 'counters', False):
                # std::move(*this): the operation hands itself to its next continuation
                em.uses_moved_self = True
                return '(*(g_moved_self++, %s))' % em.e(x['inner'][0])
            at = em.T(qt(args[0]))
            if name == 'move' and x.get('valueCategory') == 'lvalue' and em.opaque_ok:
                if at.kind == 'vec':
                    # the moved-from vector is left empty (libstdc++; assumed)
                    return '%s_take(%s)' % (at.c, em.addr(args[0]))
                if at.kind == 'rec' and em.handler_fields(at):
                    return '%s(%s)' % (em.record_mover(at), em.addr(args[0]))
                if at.kind == 'opq' and 'any_completion_handler' in (at.name or ''):
                    return 'opq_take(%s)' % em.addr(args[0])
            return em.e(args[0])
        if name in ('ref', 'cref') and len(args) == 1 and em.opaque_ok:
            # std::ref(x): a handle to x, x itself untouched
            return '((opq_t)(long)%s)' % em.addr(args[0])
        if name == 'make_pair' and len(args) == 2:
            ti = em.T(qt(n))
            return '%s_make(%s, %s)' % (ti.c, em.e(args[0]), em.e(args[1]))
        if name == 'lower_bound' and len(args) == 3:
            t0 = em.T(qt(args[0]))
            if t0.kind == 'ptr' and t0.elem.kind == 'rec':
                less = self.find_operator(em, 'operator<', t0.elem)
                nm = 'lower_bound__' + t0.elem.mangle()
                self.gen_once(nm, 'DEF_LOWER_BOUND_PTR(%s, %s, %s)' % (nm, t0.elem.c, less))
                return '%s(%s, %s, %s)' % (nm, em.e(args[0]), em.e(args[1]), em.addr(args[2]))
        if name == 'max' and len(args) == 0 and cnode is not None:
            t = em.T(qt(n))
            if t.c == 'long':
                return '0x7fffffffffffffffl'
            if t.c == 'int':
                return '0x7fffffff'
            if t.c == 'unsigned int':
                return '0xffffffffu'
        if name in ('find_if', 'remove_if') and len(args) == 3:
            t0 = em.T(qt(args[0]))
            if t0.kind in ('vit', 'ptr'):
                clo = em.addr(args[2])
                cti = em.T(qt(args[2]))
                ops = em.lambda_ops.get(cti.c.replace('struct ', ''), [])
                if len(ops) == 1:
                    nm = '%s__%s__%s' % (name, t0.elem.mangle(), ops[0])
                    self.gen_once(nm, 'DEF_%s_PTR(%s, %s, %s, %s)' % (name.upper(), nm, t0.elem.c, cti.c, ops[0]))
                    return '%s(%s, %s, %s)' % (nm, em.e(args[0]), em.e(args[1]), clo)
        if name == 'stable_sort' and len(args) == 2:
            t0 = em.T(qt(args[0]))
            if t0.kind in ('vit', 'ptr') and t0.elem.kind == 'rec':
                less = self.find_member_operator(em, 'operator<', t0.elem)
                nm = 'stable_sort__' + t0.elem.mangle()
                self.gen_once(nm, 'DEF_STABLE_SORT_PTR(%s, %s, %s)' % (nm, t0.elem.c, less))
                return '%s(%s, %s)' % (nm, em.e(args[0]), em.e(args[1]))
        if name == 'make_move_iterator' and len(args) == 1:
            return em.e(args[0])
        if name == 'any_of' and len(args) == 3:
            t0 = em.T(qt(args[0]))
            if t0.kind in ('vit', 'ptr'):
                clo = em.addr(args[2])
                cti = em.T(qt(args[2]))
                ops = em.lambda_ops.get(cti.c.replace('struct ', ''), [])
                if len(ops) == 1:
                    nm = 'any_of__' + t0.elem.mangle() + '__' + ops[0]
                    self.gen_once(nm, 'DEF_ANY_OF_PTR(%s, %s, %s, %s)' % (nm, t0.elem.c, cti.c, ops[0]))
                    return '%s(%s, %s, %s)' % (nm, em.e(args[0]), em.e(args[1]), clo)
        if name == 'upper_bound' and len(args) == 4:
            t0 = em.T(qt(args[0]))
            if t0.kind in ('vit', 'ptr'):
                clo = em.addr(args[3])          # emits the closure and its operator()
                cti = em.T(qt(args[3]))
                ops = em.lambda_ops.get(cti.c.replace('struct ', ''), [])
                vti = em.T(qt(args[2]))
                if len(ops) == 1:
                    nm = 'upper_bound__' + t0.elem.mangle() + '__' + ops[0]
                    self.gen_once(nm, 'DEF_UPPER_BOUND_PTR(%s, %s, %s, %s, %s)' % (nm, t0.elem.c, vti.c, cti.c, ops[0]))
                    return '%s(%s, %s, %s, %s)' % (nm, em.e(args[0]), em.e(args[1]), em.e(args[2]), clo)
        if name == 'distance' and len(args) == 2:
            t0 = em.T(qt(args[0]))
            if t0.kind in ('it', 'vit', 'ptr'):
                return 'it_distance(%s, %s)' % (em.e(args[0]), em.e(args[1]))
        if name in ('prev', 'next') and len(args) >= 1:
            t0 = em.T(qt(args[0]))
            if t0.kind in ('it', 'vit'):
                d = em.e(args[1]) if len(args) > 1 and args[1].get('kind') != 'CXXDefaultArgExpr' else '1'
                return '(%s %s %s)' % (em.e(args[0]), '-' if name == 'prev' else '+', d)
        return None

    def find_member_operator(self, em, opname, ti):
        for c in em.all_members(ti.decl):
            if c.get('kind') == 'CXXMethodDecl' and c.get('name') == opname and has_body(c):
                return em.want(c)
        return self.find_operator(em, opname, ti)

    def find_operator(self, em, opname, ti):
        """repository free/friend operator on record type ti"""
        want = ti.decl.get('_qname', '').rsplit('::', 1)[0]
        for q, fns in em.ast.functions.items():
            if q.endswith('::' + opname) or q == opname:
                for f in fns:
                    ps = params_of(f)
                    if len(ps) == 2 and em.T(qt(ps[0])).c == ti.c and em.T(qt(ps[1])).c == ti.c:
                        return em.want(f)
        raise Unsupported('no %s for %s' % (opname, ti.c))

    def member_call(self, em, n, cnode, obj, args):
        if obj is None:
            return None
        oti = em.T(qt(obj))
        arrow = cnode.get('isArrow')
        inner = oti.elem if (oti.kind == 'ptr' and arrow) else oti
        m = cnode.get('name')
        o = em.e(obj) if arrow else em.addr(obj)
        if inner.kind == 'sv' and m in SV_METHODS:
            return self._method(em, SV_METHODS[m], m, o, args, SV_DEFAULTS.get(m, {}), SV_REF_RESULT)
        if inner.kind == 'str' and m in STR_METHODS:
            return self._method(em, STR_METHODS[m], m, o, args, {}, STR_REF_RESULT)
        if inner.kind == 'str' and m == 'operator basic_string_view':
            return 'sv_from_str(%s)' % o
        if inner.kind == 'opt':
            if m == 'has_value' or m == 'operator bool':
                return '(%s)->has' % o
            if m == 'value':
                return '(*%s_value(%s))' % (inner.c, o)
            if m == 'value_or':
                lit = self._strlit(args[0])
                if lit is not None and inner.c in ('opt_str_t', 'opt_sv_t'):
                    return '%s_value_or(%s, %s)' % (inner.c, o, self.sv_literal(em, lit))
                return '%s_value_or(%s, %s)' % (inner.c, o, em.e(args[0]))
            if m == 'reset':
                return '((%s)->has = 0)' % o
            if m == 'emplace' and len(args) == 1:
                return '%s_emplace(%s, %s)' % (inner.c, o, em.e(args[0]))
        if inner.kind == 'opq' and 'any_completion_handler' in (inner.name or ''):
            if m == 'operator bool':
                return '((*%s) != 0)' % o if not arrow else '((*%s) != 0)' % o
        if inner.kind == 'uptr':
            if m == 'get':
                return '(*%s)' % o
            if m == 'operator bool':
                return '((*%s) != 0)' % o
        if inner.kind == 'ec':
            if m == 'operator bool':
                return '((*%s) != EC_OK)' % o
            if m in ('value',):
                return '(*%s)' % o
            if m == 'failed':
                return '((*%s) != EC_OK)' % o
        if inner.kind == 'dur' and m == 'count':
            return '(*%s)' % o
        if inner.kind == 'vec':
            return self.vec_method(em, inner, m, o, args, n)
        return None

    def vec_method(self, em, ti, m, o, args, n):
        tbl = {'size': 'size', 'empty': 'empty', 'back': 'back', 'front': 'front', 'pop_back': 'pop_back',
               'begin': 'begin', 'end': 'end', 'cbegin': 'begin', 'cend': 'end', 'push_back': 'push_back',
               'clear': 'clear', 'operator[]': 'at', 'erase': 'erase', 'insert': 'insert', 'pop_front': 'pop_front',
               'emplace_back': 'push_back'}
        if m not in tbl:
            return None
        real = [x for x in args if x.get('kind') != 'CXXDefaultArgExpr']
        f = '%s_%s' % (ti.c, tbl[m])
        if m == 'erase' and len(real) == 2:
            f = '%s_erase_range' % ti.c
        if m == 'insert' and len(real) == 3:
            f = '%s_insert_range' % ti.c
        if m == 'emplace_back' and len(real) == 1 and ti.elem.kind == 'opq' and em.T(qt(real[0])).kind != 'opq':
            # element constructed in place from another type (type erasure): an opaque constructor
            key = 'stub__ctor__' + sanitize(em.short_type(ti.elem.name or 'elem'))[:50]
            for pat, rep in getattr(em, 'stub_aliases', []):
                if re.search(pat, key):
                    key = re.sub(pat, rep, key)
                    break
            em.stubs[key] = ('opq_t', ['opq_t'])
            a = [o, '%s((opq_t)(long)%s)' % (key, em.addr(real[0]))]
        elif m == 'emplace_back' and len(real) > 1 and ti.elem.kind == 'rec':
            # element constructed in place by one of the record's own constructors
            ctor = em.find_ctor_by_args(ti.elem.decl, real)
            if ctor is None:
                raise Unsupported('emplace_back: no constructor of %s takes these %d arguments' % (ti.elem.c, len(real)))
            t = em.cur.temp(ti.elem)
            cn = em.want(ctor)
            a = [o, '(%s(&%s%s), %s)' % (cn, t, ''.join(', ' + x for x in em.call_args(ctor, real)), t)]
        else:
            a = [o] + [em.e(x) for x in real]
        call = '%s(%s)' % (f, ', '.join(a))
        if m in ('back', 'front', 'operator[]'):
            return '(*%s)' % call
        return call

    def _method(self, em, cfn, m, o, args, defaults, refres):
        a = [o]
        for i, x in enumerate(args):
            if x.get('kind') == 'CXXDefaultArgExpr':
                if i in defaults:
                    a.append(defaults[i])
                else:
                    raise Unsupported('default argument %d of %s' % (i, m))
            else:
                a.append(em.e(x))
        call = '%s(%s)' % (cfn, ', '.join(a))
        if m in refres:
            return '(*%s)' % call
        return call

    def operator_call(self, em, n, rd, args):
        name = (rd or {}).get('name')
        t0 = em.T(qt(args[0]))
        if t0.kind == 'sv' and name == 'operator[]':
            return '(*sv_at(%s, %s))' % (em.addr(args[0]), em.e(args[1]))
        if t0.kind == 'str' and name == 'operator[]':
            return '(*str_at(%s, %s))' % (em.addr(args[0]), em.e(args[1]))
        if t0.kind == 'opt':
            if name == 'operator*':
                return '(*%s_value(%s))' % (t0.c, em.addr(args[0]))
            if name == 'operator->':
                return '%s_value(%s)' % (t0.c, em.addr(args[0]))
            if name == 'operator=':
                t1 = em.T(qt(args[1]))
                if t1.kind == 'opt':
                    return '(%s = %s)' % (em.e(args[0]), em.e(args[1]))
                if t1.kind == 'nullopt':
                    return '(%s.has = 0)' % em.e(args[0])
                lit = self._strlit(args[1])
                if lit is not None and t0.c in ('opt_str_t', 'opt_sv_t'):
                    return '(%s = %s_some(%s))' % (em.e(args[0]), t0.c, self.sv_literal(em, lit))
                return '(%s = %s_some(%s))' % (em.e(args[0]), t0.c, em.e(args[1]))
        if t0.kind == 'opq' and 'any_completion_handler' in (t0.name or ''):
            # emptiness of a type-erased handler is the zero handle
            if name == 'operator!':
                return '(%s == 0)' % em.e(args[0])
        if t0.kind == 'uptr':
            if name == 'operator*':
                return '(*%s)' % em.e(args[0])
            if name == 'operator->':
                return em.e(args[0])
        if t0.kind in ('it', 'vit'):
            return self.iter_op(em, n, name, args, t0)
        if t0.kind in ('sv', 'pair', 'ec', 'dur', 'str', 'vec') and name == 'operator=':
            return '(%s = %s)' % (em.e(args[0]), em.e(args[1]))
        if t0.kind == 'ec' or (len(args) > 1 and em.T(qt(args[1])).kind == 'ec'):
            if name in ('operator==', 'operator!='):
                return '(%s %s %s)' % (self.ec_val(em, args[0]), name[8:], self.ec_val(em, args[1]))
        return None

    def ec_const(self, em, name):
        nm = 'EC_' + sanitize(name)
        if nm not in em.ec_consts:
            em.ec_consts.append(nm)
        return nm

    def ec_val(self, em, a):
        x = a
        while x.get('kind') in ('ImplicitCastExpr', 'CXXConstructExpr', 'MaterializeTemporaryExpr', 'CXXFunctionalCastExpr', 'ExprWithCleanups', 'CXXBindTemporaryExpr') and len([c for c in x.get('inner', []) if c.get('kind') != 'CXXDefaultArgExpr']) == 1:
            x = [c for c in x['inner'] if c.get('kind') != 'CXXDefaultArgExpr'][0]
        if x.get('kind') == 'DeclRefExpr' and x['referencedDecl'].get('kind') == 'EnumConstantDecl':
            return self.ec_const(em, x['referencedDecl']['name'])
        if x.get('kind') == 'CXXConstructExpr' and not x.get('inner') and em.T(qt(x)).kind == 'ec':
            return 'EC_OK'
        return em.e(a)

    def iter_op(self, em, n, name, args, t0):
        a0 = em.e(args[0])
        if name == 'operator*':
            if t0.kind == 'it':
                return '(*it_deref(%s))' % a0
            return '(*%s)' % a0
        if name == 'operator->' and t0.kind == 'vit':
            return a0
        if t0.kind == 'vit' and name in ('operator+', 'operator-') and len(args) == 2:
            return '(%s %s %s)' % (a0, name[8:], em.e(args[1]))
        if name in ('operator++', 'operator--'):
            op = name[8:]
            # postfix has a dummy int argument
            if len(args) == 2:
                return '(%s%s)' % (a0, op)
            return '(%s%s)' % (op, a0)
        if name in ('operator+', 'operator-', 'operator==', 'operator!=', 'operator<', 'operator>', 'operator<=', 'operator>=', 'operator+=', 'operator-='):
            op = name[8:]
            if len(args) == 2:
                a1 = em.e(args[1])
                if op in ('+', '-') and em.T(qt(args[1])).kind not in ('it', 'vit'):
                    return 'it_add(%s, %s(long)(%s))' % (a0, '-' if op == '-' else '', a1)
                return '(%s %s %s)' % (a0, op, a1)
        if name == 'operator=':
            return '(%s = %s)' % (a0, em.e(args[1]))
        return None

    def lambda_expr(self, em, n):
        return None
