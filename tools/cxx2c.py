"""cxx2c -- AST-driven C emitter for the functions of /repo put under contract.

Input : clang JSON AST (tools/cxxast.py) of an instantiation driver TU.
Output: C text with the same statement structure, operators, literals and
        implicit conversions as the C++ function (clang's ImplicitCastExpr are
        printed as explicit casts).  Template code is emitted from its
        *instantiations*, never from the dependent pattern.

Three translation classes (DESIGN 3.2):
  1. repository entities   -> structural translation (struct + functions)
  2. library entities with a model (models/*.h) -> calls into the model
  3. everything else       -> opaque handle `opq_t` + body-less stub
Anything outside the closed tables raises Unsupported (pipeline exit 2).
"""
import re
from cxxast import *  # noqa


class Unsupported(Exception):
    pass


# library functions that take forwarding references but only copy / move from
# their arguments (assumed: Boost.Asio completion-token adapters and executors)
NON_MUTATING_LIB = {'prepend', 'append', 'consign', 'bind_executor', 'bind_allocator', 'bind_cancellation_slot',
                    'bind_immediate_executor', 'post', 'dispatch', 'defer', 'get_associated_executor',
                    'get_associated_allocator', 'get_associated_cancellation_slot', 'make_pair', 'make_tuple',
                    'tie', 'buffer', 'require', 'prefer'}


INT_TYPES = {
    'bool': '_Bool', 'char': 'char', 'signed char': 'signed char', 'unsigned char': 'unsigned char',
    'short': 'short', 'unsigned short': 'unsigned short', 'int': 'int', 'unsigned int': 'unsigned int',
    'long': 'long', 'unsigned long': 'unsigned long', 'long long': 'long long',
    'unsigned long long': 'unsigned long long',
    'uint8_t': 'unsigned char', 'uint16_t': 'unsigned short', 'uint32_t': 'unsigned int',
    'uint64_t': 'unsigned long', 'int8_t': 'signed char', 'int16_t': 'short', 'int32_t': 'int',
    'int64_t': 'long', 'size_t': 'unsigned long', 'std::size_t': 'unsigned long',
    'ptrdiff_t': 'long', 'std::ptrdiff_t': 'long', 'unsigned': 'unsigned int',
    'std::uint8_t': 'unsigned char', 'std::uint16_t': 'unsigned short', 'std::uint32_t': 'unsigned int',
    'std::int32_t': 'int', 'std::uint64_t': 'unsigned long', 'std::int64_t': 'long',
    'double': 'double', 'float': 'float',
    'boost::mqtt5::detail::serial_num_t': 'unsigned int', 'serial_num_t': 'unsigned int',
}

OPNAMES = {
    'operator<': 'op_lt', 'operator>': 'op_gt', 'operator==': 'op_eq', 'operator!=': 'op_ne',
    'operator()': 'op_call', 'operator[]': 'op_index', 'operator|': 'op_or', 'operator&': 'op_and',
    'operator=': 'op_assign', 'operator<<': 'op_shl', 'operator*': 'op_star', 'operator->': 'op_arrow',
    'operator bool': 'conv_bool', 'operator!': 'op_not', 'operator++': 'op_inc', 'operator--': 'op_dec',
    'operator+': 'op_plus', 'operator-': 'op_minus', 'operator<=': 'op_le', 'operator>=': 'op_ge',
    'operator+=': 'op_pluseq', 'operator-=': 'op_minuseq', 'operator|=': 'op_oreq',
}


def sanitize(s):
    s = s.replace('boost::mqtt5::', '').replace('mqtt5::', '')
    for k in sorted(OPNAMES, key=len, reverse=True):
        if s.endswith(k) or ('::' + k) in s:
            s = s.replace(k, OPNAMES[k])
    s = s.replace('::', '__')
    s = re.sub(r'[^A-Za-z0-9_]+', '_', s)
    s = re.sub(r'_+$', '', s)
    return s


def has_toplevel_paren(s):
    """'(' outside every template argument list: a function (pointer/reference) type"""
    d = 0
    for ch in s:
        if ch == '<':
            d += 1
        elif ch == '>':
            d -= 1
        elif ch == '(' and d == 0:
            return True
    return False


def split_top(s, sep=','):
    out, depth, cur = [], 0, ''
    for ch in s:
        if ch in '<([':
            depth += 1
        elif ch in '>)]':
            depth -= 1
        if ch == sep and depth == 0:
            out.append(cur.strip())
            cur = ''
        else:
            cur += ch
    if cur.strip():
        out.append(cur.strip())
    return out


def strip_cv(s):
    s = s.strip()
    changed = True
    while changed:
        changed = False
        for q in ('const ', 'volatile ', 'struct ', 'class ', 'enum ', 'typename '):
            if s.startswith(q):
                s = s[len(q):].strip()
                changed = True
        for q in (' const', ' volatile'):
            if s.endswith(q):
                s = s[:-len(q)].strip()
                changed = True
    return s


class TI:
    """type info"""
    def __init__(self, kind, c, **kw):
        self.kind = kind
        self.c = c
        self.elem = kw.get('elem')
        self.args = kw.get('args', [])
        self.decl = kw.get('decl')
        self.n = kw.get('n')
        self.name = kw.get('name', '')
        self.ref = False

    def mangle(self):
        if self.kind == 'ptr':
            return 'p' + self.elem.mangle()
        return re.sub(r'[^A-Za-z0-9]+', '_', self.c.replace('struct ', '').replace('unsigned ', 'u')).strip('_')

    def __repr__(self):
        return 'TI(%s,%s)' % (self.kind, self.c)


class Emitter:
    def __init__(self, ast, lib=None, aliases=(), opaque_ok=True, const_globals=True):
        self.ast = ast
        self.lib = lib            # library model table (libmodel.Lib)
        self.aliases = list(aliases)
        self.opaque_ok = opaque_ok
        self.struct_defs = {}     # cname -> text (ordered)
        self.struct_order = []
        self.gen_types = {}       # generated helper types (opt_, pair_, vec_) name -> text
        self.gen_order = []
        self.fn_text = {}         # cname -> text
        self.fn_proto = {}
        self.fn_order = []
        self.fn_decl = {}         # cname -> decl
        self.fn_meta = {}         # cname -> dict(loops=[...], calls=[...], file,line)
        self.globals = {}         # cname -> decl text
        self.global_init = []     # statements for __cxx_global_init
        self.stubs = {}           # name -> (ret ctype, [arg ctypes])
        self.work = []
        self.cnames = {}          # decl id -> cname
        self.used_cnames = {}
        self.model_uses = set()
        self.macros_emitted = []
        self.cur = None
        self.opaque_types = set()
        self.ec_consts = []
        self.lib_enums = []
        self.extra_fns = {}
        self.skipped_lambdas = []
        self.lambdas_of = {}
        self.lambda_types = {}
        self.lambda_ctx = {}
        self.lambda_ops = {}

    # ------------------------------------------------------------------ types
    def resolve_record(self, name):
        name = strip_cv(name)
        name = name.replace('boost::mqtt5::', '')
        cands = []
        if name in self.ast.records:
            return self.ast.records[name]
        if not hasattr(self, '_recnorm'):
            self._recnorm = {}
            for q, d in self.ast.records.items():
                self._recnorm.setdefault(q.replace(' ', ''), d)
        key = name.replace(' ', '')
        if key in self._recnorm:
            return self._recnorm[key]
        if '<' in key and key.endswith('>'):
            # non-type arguments: the index prints their value, clang's type spelling their name
            base = key[:key.index('<')]
            kargs = split_top(key[key.index('<') + 1:-1])
            cands = []
            for q, d in self._recnorm.items():
                if q.startswith(base + '<') and q.endswith('>'):
                    qargs = split_top(q[len(base) + 1:-1])
                    if len(qargs) == len(kargs) and all(a == b or re.match(r'^-?\d+$', a) for a, b in zip(qargs, kargs)) and any(a != b for a, b in zip(qargs, kargs)):
                        cands.append(d)
            if len(cands) == 1:
                return cands[0]
        if '<' in key:
            # class template specialisations print defaulted arguments (", void") inconsistently
            for q, d in self._recnorm.items():
                if q.startswith(key[:-1]) and q[len(key) - 1:] in (',void>',):
                    return d
            hits = [d for q, d in self._recnorm.items() if q.endswith('::' + key[:-1] + ',void>')]
            if len(hits) == 1:
                return hits[0]
        for q, d in self.ast.records.items():
            if q.endswith('::' + name):
                cands.append(d)
        if len(cands) == 1:
            return cands[0]
        return None

    def resolve_enum(self, name):
        name = strip_cv(name).replace('boost::mqtt5::', '')
        if name in self.ast.enums:
            return self.ast.enums[name]
        cands = [d for q, d in self.ast.enums.items() if q.endswith('::' + name)]
        if len(cands) == 1:
            return cands[0]
        return None

    def T(self, s):
        """C++ type spelling -> TI (references are stripped; .ref is set)"""
        s0 = s
        s = s.strip()
        ref = False
        while s.endswith('&'):
            s = s[:-1].strip()
            ref = True
        stack = self.__dict__.setdefault('_tstack', [])
        if s in stack or len(stack) > 40:
            # a typedef chain that leads back to itself: keep the type opaque
            self.opaque_types.add(s)
            ti = TI('opq', 'opq_t', name=s)
        else:
            stack.append(s)
            try:
                ti = self._T(s)
            finally:
                stack.pop()
        if ref:
            ti = self._copy(ti)
            ti.ref = True
        return ti

    def _copy(self, ti):
        t = TI(ti.kind, ti.c, elem=ti.elem, args=ti.args, decl=ti.decl, n=ti.n, name=ti.name)
        return t

    def _T(self, s):
        s = strip_cv(s)
        if s.endswith('*'):
            inner = s[:-1].strip()
            if strip_cv(inner) in ('char', 'const char') and False:
                pass
            e = self.T(inner)
            return TI('ptr', e.c + ' *', elem=e)
        m = re.match(r'^(.*)\[(\d*)\]$', s)
        if m:
            e = self.T(m.group(1))
            return TI('array', e.c, elem=e, n=int(m.group(2)) if m.group(2) else None)
        if s == 'void':
            return TI('void', 'void')
        if s in INT_TYPES:
            return TI('int', INT_TYPES[s], name=s)
        if self.cur is not None and s in getattr(self.cur, 'lambda_types', {}):
            return self.cur.lambda_types[s]
        if s in ('std::nullopt_t', 'nullopt_t'):
            return TI('nullopt', 'int')
        if s in ('std::nullptr_t', 'nullptr_t'):
            return TI('ptr', 'void *', elem=TI('void', 'void'))
        if self.lib:
            ti = self.lib.type(self, s)
            if ti is not None:
                return ti
        en = self.resolve_enum(s)
        if en is not None:
            ut = (en.get('fixedUnderlyingType') or {})
            u = ut.get('desugaredQualType') or ut.get('qualType') or 'int'
            return TI('int', INT_TYPES.get(strip_cv(u), 'int'), name=s, decl=en)
        rd = self.resolve_record(s)
        if rd is not None and self.translatable_record(rd):
            return TI('rec', 'struct ' + self.record_cname(rd), decl=rd)
        if rd is None and '::' in s:
            # member typedef of a class template instantiation (X<...>::client_service)
            if not hasattr(self, '_tdnorm'):
                self._tdnorm = {q.replace(' ', ''): v for q, v in self.ast.typedefs.items()}
            key = s.replace('boost::mqtt5::', '').replace(' ', '')
            tgt = self._tdnorm.get(key)
            if tgt and tgt != s and not getattr(self, '_in_alias2', False):
                self._in_alias2 = True
                try:
                    return self._T(tgt)
                finally:
                    self._in_alias2 = False
        if re.match(r'^(boost::asio::cancellation_type|boost::asio::cancellation_type_t)$', s):
            return TI('int', 'int', name=s)
        if has_toplevel_paren(s) and rd is None and not s.startswith('(lambda at'):
            # function (pointer/reference) types
            return TI('fn', 'void *', name=s)
        # namespace-scope type aliases of the repository (byte_citer, packet_id, ...)
        if re.match(r'^[A-Za-z_][A-Za-z0-9_:]*$', s):
            key = s.replace('boost::mqtt5::', '')
            cands = [v for q, v in self.ast.typedefs.items() if q == key or q.endswith('::' + key)]
            cands = sorted(set(c for c in cands if c and c != s))
            if len(cands) == 1 and not getattr(self, '_in_alias', False):
                self._in_alias = True
                try:
                    return self._T(cands[0])
                finally:
                    self._in_alias = False
        if not self.opaque_ok:
            raise Unsupported('type outside the tables: %r' % s)
        self.opaque_types.add(s)
        return TI('opq', 'opq_t', name=s)

    def translatable_record(self, rd):
        # records of the repository whose fields are all translatable are
        # translated structurally on demand; decided lazily in record_struct()
        return True

    def record_cname(self, rd):
        q = rd.get('_qname', rd.get('name', 'anon'))
        for pat, rep in self.aliases:
            q = re.sub(pat, rep, q)
        c = sanitize(q)
        if c not in self.struct_defs and c not in getattr(self, '_emitting_structs', set()):
            self.emit_struct(rd, c)
        return c

    def fields_of(self, rd):
        out = []
        # bases first (only repository bases with fields)
        for b in rd.get('bases', []) or []:
            bt = b.get('type', {})
            bn = bt.get('desugaredQualType') or bt.get('qualType')
            bd = self.resolve_record(bn) if bn else None
            if bd is not None:
                out += self.fields_of(bd)
            elif bn and self.lib:
                bti = self.lib.type(self, strip_cv(bn))
                if bti is not None and bti.kind == 'pair':
                    # private/public std::pair base: its two members
                    out.append({'kind': 'FieldDecl', 'name': 'first', 'id': 'synth', 'type': {'qualType': bti.args[0].name or bti.args[0].c}, '_ti': bti.args[0]})
                    out.append({'kind': 'FieldDecl', 'name': 'second', 'id': 'synth', 'type': {'qualType': bti.args[1].name or bti.args[1].c}, '_ti': bti.args[1]})
        for c in rd.get('inner', []):
            if c.get('kind') == 'FieldDecl':
                out.append(c)
        return out

    def emit_struct(self, rd, c):
        self._emitting_structs = getattr(self, '_emitting_structs', set())
        self._emitting_structs.add(c)
        lines = ['struct %s {' % c]
        flds = self.fields_of(rd)
        for f in flds:
            ti = f.get('_ti') or self.T(qt(f))
            lines.append('  %s;' % self.decl(ti, f['name'], byref=ti.ref))
        if not flds:
            lines.append('  char _empty;')
        lines.append('};')
        self._emitting_structs.discard(c)
        if c not in self.struct_defs:
            self.struct_defs[c] = '\n'.join(lines)
            self.struct_order.append(c)

    def decl(self, ti, name, byref=False):
        if ti.kind == 'array':
            return '%s %s[%s]' % (ti.elem.c, name, ti.n if ti.n is not None else '')
        if byref:
            return '%s *%s' % (ti.c, name)
        return '%s %s' % (ti.c, name)

    # ------------------------------------------------------------- functions
    def fn_cname(self, fn, spec=None):
        """spec: {param id: target function decl} -- mechanical specialisation of
        function-reference parameters bound to named repository functions"""
        skey = (fn['id'], tuple(sorted((k, v['id']) for k, v in (spec or {}).items())))
        if skey in self.cnames:
            return self.cnames[skey]
        q = fn.get('_qname') or fn.get('name')
        for pat, rep in self.aliases:
            q = re.sub(pat, rep, q)
        base = sanitize(q)
        targs = template_args(fn)
        targs_n = [a for a in targs if '(' not in a and '__normal_iterator<' not in a and not a.startswith('boost::spirit::x3::context<')]
        if targs_n:
            suf = '_'.join(sanitize(self.short_type(a)) for a in targs_n)
            if len(suf) > 70:
                import hashlib
                suf = suf[:48] + '_' + hashlib.sha1(suf.encode()).hexdigest()[:6]
            base += '__' + suf
        kind = fn.get('kind')
        plist = params_of(fn)
        sig = [self.short_type(qt_sugar(p)) for p in plist]
        need_sig = kind == 'CXXConstructorDecl' or (fn.get('name') or '').startswith('operator')
        if not need_sig:
            same = [f for f in self.ast.functions.get(fn.get('_qname'), [])
                    if template_args(f) == targs and f is not fn]
            if same:
                need_sig = True
        if need_sig:
            if fn.get('name') == 'operator()' and sig:
                tag = strip_cv(qt_sugar(plist[0]).replace('&', '').strip())
                # a tag type (X<...>::on_read): its last component names the continuation
                depth, cut = 0, -1
                for i, ch in enumerate(tag):
                    if ch in '<(':
                        depth += 1
                    elif ch in '>)':
                        depth -= 1
                    elif ch == ':' and depth == 0:
                        cut = i
                tag = tag[cut + 1:] if cut >= 0 else tag
                base += '__' + sanitize(tag)[:60]
            else:
                sg = ('_'.join(sanitize(x) for x in sig) if sig else 'void')
                if len(sg) > 70:
                    import hashlib
                    sg = sg[:48] + '_' + hashlib.sha1(sg.encode()).hexdigest()[:6]
                base += '__' + sg
        if spec:
            for p in plist:
                if p['id'] in spec:
                    base += '__' + sanitize(spec[p['id']].get('name'))
        c = base
        k = 2
        while c in self.used_cnames and self.used_cnames[c] != skey:
            c = '%s_%d' % (base, k)
            k += 1
        self.used_cnames[c] = skey
        self.cnames[skey] = c
        return c

    def short_type(self, s):
        s = strip_cv(s.replace('&', '').strip())
        s = re.sub(r'\b(?:[A-Za-z_][A-Za-z0-9_]*::)+', '', s)
        return s

    def want(self, fn, spec=None):
        c = self.fn_cname(fn, spec)
        if c not in self.fn_text and c not in [w[2] for w in self.work]:
            self.work.append((fn, spec, c))
        return c

    def run(self):
        while self.work:
            fn, spec, c = self.work.pop(0)
            if c in self.fn_text:
                continue
            try:
                self.emit_function(fn, spec)
            except Unsupported as e_:
                self.skip_reasons = getattr(self, 'skip_reasons', {}); self.skip_reasons[c] = str(e_)
                self.fn_text.pop(c, None)
                self.cur = None
                if fn['id'] in self.lambda_ctx:
                    # the body of a closure that is only handed to opaque callees is not needed
                    for k, v in self.lambda_ops.items():
                        if c in v:
                            v.remove(c)
                    self.skipped_lambdas.append(c)
                    continue
                raise

    def owner_record(self, fn):
        p = self.ast.parent.get(id(fn))
        while p is not None and p.get('kind') in ('FunctionTemplateDecl',):
            p = self.ast.parent.get(id(p))
        if p is not None and p.get('kind') in ('CXXRecordDecl', 'ClassTemplateSpecializationDecl'):
            return p
        return None

    def is_static_method(self, fn):
        return fn.get('storageClass') == 'static'

    def ret_type(self, fn):
        t = fn.get('type', {}).get('qualType', '')
        # "RET (ARGS) quals"
        depth = 0
        idx = None
        for i, ch in enumerate(t):
            if ch in '<[':
                depth += 1
            elif ch in '>]':
                depth -= 1
            elif ch == '(' and depth == 0:
                idx = i
                break
        r = t[:idx].strip() if idx is not None else t
        isref = r.endswith('&')
        if r in ('auto', 'decltype(auto)') or 'auto' in re.split(r'[^A-Za-z_]+', r) or "'" in r:
            # deduced (or unprintable) return type: take the type of the returned expression
            d = self.deduced_return(fn) or 'void'
            r = d + (' &' if (isref and not d.strip().endswith('&')) else '')
        elif r.startswith('typename '):
            # a dependent spelling clang does not desugar in the function type (asio's
            # constraint<...>::type): the returned expression carries the desugared type
            d = self.deduced_return(fn)
            if d and d.strip() in ('void',) + tuple(INT_TYPES):
                r = d
        return r

    def deduced_return(self, fn):
        acc = []

        def walk(n):
            if n.get('kind') == 'ReturnStmt':
                acc.append(n)
            if n.get('kind') in ('LambdaExpr',):
                return
            for c in n.get('inner', []):
                walk(c)
        b = body_of(fn)
        if b:
            walk(b)
        for r in acc:
            if r.get('inner'):
                return qt(r['inner'][0])
        return 'void'

    def emit_function(self, fn, spec=None):
        c = self.fn_cname(fn, spec)
        self.fn_text[c] = None  # reserve
        prev = self.cur
        self.cur = FnCtx(self, fn, c)
        ctx = self.cur
        ctx.fnparams = dict(spec or {})
        rec = self.owner_record(fn)
        kind = fn.get('kind')
        params = []
        if fn['id'] in self.lambda_ctx:
            t_ti, capmap, outer_this = self.lambda_ctx[fn['id']]
            params.append('%s *self' % t_ti.c)
            ctx.this_ti = t_ti
            ctx.captures = dict(capmap)
            ctx.lambda_this = capmap.get('this')
            rec = None
        elif rec is not None and kind in ('CXXMethodDecl', 'CXXConstructorDecl', 'CXXConversionDecl', 'CXXDestructorDecl') and not self.is_static_method(fn):
            rti = TI('rec', 'struct ' + self.record_cname(rec), decl=rec)
            params.append('%s *self' % rti.c)
            ctx.this_ti = rti
        for p in params_of(fn):
            if p['id'] in ctx.fnparams:
                continue
            ti = self.T(qt(p))
            nm = p.get('name') or ('_unnamed%d' % len(params))
            if nm == 'self' and params:
                nm = 'self_p'     # a parameter called `self` next to the object / closure parameter
            if nm in [v[0] for v in ctx.locals.values()]:
                # expanded parameter pack (Args&&... args): every element has the pack's name
                nm = '%s_%d' % (nm, len(params))
            ctx.locals[p['id']] = (nm, ti)
            params.append(self.decl(ti, nm, byref=ti.ref))
        if kind == 'CXXConstructorDecl':
            rti_ret = TI('void', 'void')
        else:
            rti_ret = self.T(self.ret_type(fn))
        ctx.ret_ti = rti_ret
        retc = rti_ret.c + (' *' if rti_ret.ref else '')
        proto = '%s %s(%s)' % (retc, c, ', '.join(params) if params else 'void')
        body_lines = []
        if kind == 'CXXConstructorDecl':
            for ini in fn.get('inner', []):
                if ini.get('kind') == 'CXXCtorInitializer':
                    body_lines += self.ctor_init(ini, rec)
        b = body_of(fn)
        stm = self.s(b, 1)
        text = []
        text.append('/* %s  [%s:%s] */' % (fn.get('_qname'), fn.get('_file'), fn.get('_line')))
        text.append(proto)
        text.append('/*@CONTRACT %s@*/' % c)
        text.append('{')
        text.append('/*@ENTRY %s@*/' % c)
        for tname, tti in ctx.temps:
            text.append('  %s;' % self.decl(tti, tname))
        for l in body_lines:
            text.append('  ' + l)
        # strip outer braces of compound
        text += stm[1:-1] if stm and stm[0].strip() == '{' else stm
        if rti_ret.kind == 'void' and not (text and re.search(r'return;\s*$', text[-1])):
            # falling off the end of a void function is a return point too
            ctx.nreturns += 1
            text.append('    /*@RETURN %s %d@*/ ;' % (c, ctx.nreturns))
        text.append('}')
        self.fn_text[c] = '\n'.join(text)
        self.fn_proto[c] = proto + ';'
        self.fn_order.append(c)
        self.fn_decl[c] = fn
        self.fn_meta[c] = dict(loops=ctx.loops, calls=ctx.calls, file=fn.get('_file'), line=fn.get('_line'),
                               qname=fn.get('_qname'), returns=ctx.nreturns)
        self.cur = prev

    def ctor_init(self, ini, rec):
        out = []
        fld = ini.get('anyInit')
        if not fld:
            # base initialiser: ignore empty bases
            return out
        fti = self.T(qt(fld))
        val = ini['inner'][0] if ini.get('inner') else None
        out += self.init_lvalue('self->%s' % fld['name'], fti, val, fld)
        return out

    def init_lvalue(self, lv, ti, init, fld=None):
        """statements initialising C lvalue lv of type ti from init expr node"""
        if init is None:
            return []
        k = init.get('kind')
        if k == 'CXXDefaultInitExpr':
            # in-class initialiser of the field
            fdecl = self.ast.byid.get(fld['id']) if fld else None
            inner = [c for c in (fdecl or {}).get('inner', []) if 'kind' in c and not c['kind'].endswith('Comment')]
            if not inner:
                return []
            return self.init_lvalue(lv, ti, inner[0], fld)
        if k == 'ExprWithCleanups':
            return self.init_lvalue(lv, ti, init['inner'][0], fld)
        if k == 'InitListExpr' and ti.kind in ('int', 'ptr', 'it', 'ec', 'dur', 'opq'):
            if not init.get('inner'):
                return ['%s = 0;' % lv]
            return ['%s = %s;' % (lv, self.e(init['inner'][0]))]
        if k == 'InitListExpr' and ti.kind == 'array':
            out = []
            for i, c in enumerate(init.get('inner', [])):
                out += self.init_lvalue('%s[%d]' % (lv, i), ti.elem, c)
            return out
        if k == 'InitListExpr' and ti.kind == 'rec':
            out = []
            flds = self.fields_of(ti.decl)
            for f, c in zip(flds, init.get('inner', [])):
                out += self.init_lvalue('%s.%s' % (lv, f['name']), self.T(qt(f)), c, f)
            return out
        if k == 'CXXConstructExpr' and ti.kind == 'rec':
            r = self.construct_into(lv, ti, init)
            if r is not None:
                return r
        if ti.ref:
            return ['%s = %s;' % (lv, self.addr(init))]
        return ['%s = %s;' % (lv, self.e(init))]

    def find_ctor(self, rd, ctor_type):
        want = ctor_type.replace(' ', '')
        for c in self.all_members(rd):
            if c.get('kind') == 'CXXConstructorDecl':
                if c.get('type', {}).get('qualType', '').replace(' ', '') == want:
                    return c
        return None

    def find_ctor_by_args(self, rd, args):
        """constructor (instantiation) of record rd taking exactly these argument expressions
        (container::emplace_back(args...): the construction happens inside the library)"""
        def norm(t):
            return strip_cv(t.replace('&', '').strip()).replace('boost::mqtt5::', '').replace(' ', '')
        want = [norm(qt(a)) for a in args]
        cands = []
        for c in self.all_members(rd):
            if c.get('kind') == 'CXXConstructorDecl' and has_body(c):
                ps = params_of(c)
                if len(ps) == len(args) and [norm(qt(p_)) for p_ in ps] == want:
                    cands.append(c)
        if not cands:
            # arguments that convert implicitly (a concrete handler into any_completion_handler, ...):
            # the only constructor with that many parameters, if there is exactly one
            bycount = [c for c in self.all_members(rd) if c.get('kind') == 'CXXConstructorDecl' and has_body(c)
                       and len(params_of(c)) == len(args) and not c.get('isImplicit')]
            if len(bycount) == 1:
                cands = bycount
        return cands[0] if cands else None

    def all_members(self, rd):
        for c in rd.get('inner', []):
            if c.get('kind') == 'FunctionTemplateDecl':
                for cc in c.get('inner', []):
                    if cc.get('_inst'):
                        yield cc
            else:
                yield c

    def construct_into(self, lv, ti, node):
        """CXXConstructExpr of repository record into lvalue; None if it is a plain copy"""
        ctype = node.get('ctorType', {}).get('qualType', '')
        args = [a for a in node.get('inner', [])]
        ctor = self.find_ctor(ti.decl, ctype)
        if ctor is None or ctor.get('isImplicit') or ctor.get('explicitlyDefaulted') or not has_body(ctor):
            # implicit / defaulted copy, move or default constructor
            if len(args) == 1:
                return ['%s = %s;' % (lv, self.e(args[0]))]
            flds = self.fields_of(ti.decl)
            if len(args) == len(flds) and len(args) >= 2 and all(f.get('id') == 'synth' for f in flds):
                # constructor inherited from a std::pair base (using base::base)
                return ['%s.%s = %s;' % (lv, f['name'], self.e(a)) for f, a in zip(flds, args)]
            if len(args) == 0:
                out = []
                for f in self.fields_of(ti.decl):
                    fd = self.ast.byid.get(f['id'], f)
                    inner = [c for c in fd.get('inner', []) if 'kind' in c and not c['kind'].endswith('Comment')]
                    if inner:
                        out += self.init_lvalue('%s.%s' % (lv, f['name']), self.T(qt(f)), inner[0], f)
                return out
            raise Unsupported('constructor %s of %s not found' % (ctype, ti.c))
        cn = self.want(ctor)
        return ['%s(&%s%s);' % (cn, lv, ''.join(', ' + a for a in self.call_args(ctor, args)))]

    def call_args(self, callee, args, only=None):
        out = []
        ps = params_of(callee)
        for i, a in enumerate(args):
            if only is not None and i not in only:
                continue
            if a.get('kind') == 'CXXDefaultArgExpr':
                a = self.default_arg(ps[i]) if i < len(ps) else None
                if a is None:
                    raise Unsupported('default argument without value')
            pti = self.T(qt(ps[i])) if i < len(ps) else None
            if pti is not None and pti.ref:
                out.append(self.addr(a))
            else:
                out.append(self.e(a))
        return out

    def default_arg(self, p):
        pd = self.ast.byid.get(p['id'], p)
        inner = [c for c in pd.get('inner', []) if 'kind' in c and not c['kind'].endswith('Comment')]
        return inner[0] if inner else None

    # ------------------------------------------------------------ statements
    def s(self, n, ind):
        k = n.get('kind')
        I = '  ' * ind
        m = getattr(self, 's_' + k, None)
        if m is not None:
            return m(n, ind)
        if k in EXPR_KINDS:
            return [I + self.e(n) + ';']
        raise Unsupported('statement kind %s at %s:%s in %s' % (k, n.get('_bfile'), n.get('_bline'), self.cur.cname))

    def s_CompoundStmt(self, n, ind):
        I = '  ' * ind
        out = [I + '{']
        for c in n.get('inner', []):
            out += self.s(c, ind + 1)
        out.append(I + '}')
        return out

    def s_NullStmt(self, n, ind):
        return ['  ' * ind + ';']

    def s_DeclStmt(self, n, ind):
        I = '  ' * ind
        out = []
        for d in n.get('inner', []):
            k = d.get('kind')
            if k == 'VarDecl':
                out += [I + l for l in self.vardecl(d)]
            elif k == 'DecompositionDecl':
                out += [I + l for l in self.decomposition(d)]
            elif k in ('TypeAliasDecl', 'TypedefDecl', 'UsingDecl', 'UsingDirectiveDecl', 'StaticAssertDecl', 'UsingShadowDecl', 'NamespaceAliasDecl', 'CXXRecordDecl', 'EnumDecl'):
                continue
            else:
                raise Unsupported('declaration kind %s in %s' % (k, self.cur.cname))
        return out

    def uniq_local(self, name):
        ctx = self.cur
        base = name
        k = 1
        while name in ctx.used_names:
            k += 1
            name = '%s_%d' % (base, k)
        ctx.used_names.add(name)
        return name

    def vardecl(self, d):
        ctx = self.cur
        ti = self.T(qt(d))
        name = self.uniq_local(d['name'])
        init = [c for c in d.get('inner', []) if 'kind' in c and not c['kind'].endswith('Comment')]
        init = init[0] if init else None
        if ti.kind in ('opq', 'fn') and init is not None:
            # `auto` variable whose deduced type clang prints through an alias it cannot
            # desugar: take the type of the initialiser
            t2 = self.T(qt(init))
            if t2.kind not in ('opq', 'fn', 'void'):
                wasref = ti.ref or qt_sugar(d).strip().endswith('&')
                ti = self._copy(t2)
                ti.ref = wasref
        if ti.kind == 'opq' and init is not None and '(lambda at' in qt(d) and d.get('storageClass') != 'static':
            # `auto f = [..](..){..};`: the closure type exists only once the lambda expression is emitted
            pre = self.e(init)
            t2 = self.T(qt(d))
            if t2.kind != 'opq':
                ctx.locals[d['id']] = (name, t2)
                return ['%s;' % self.decl(t2, name), '%s = %s;' % (name, pre)]
        ctx.locals[d['id']] = (name, ti)
        static = d.get('storageClass') == 'static'
        if static:
            # function-local static with an initialiser that does not depend on
            # the invocation: hoisted to file scope and initialised eagerly in
            # __cxx_global_init (same values as C++'s lazy initialisation when
            # the initialiser is free of side effects and of local state)
            if init is not None and self.mentions_local(init):
                raise Unsupported('function-local static %s initialised from local state' % name)
            g = 's__%s__%s' % (ctx.cname, name)
            ctx.locals[d['id']] = (g, ti)
            self.globals[g] = 'static %s;' % self.decl(ti, g)
            prev = self.cur
            self.cur = FnCtx(self, d, '__cxx_global_init')
            stm = self.init_lvalue(g, ti, init) if init is not None else []
            temps = self.cur.temps
            self.cur = prev
            self.global_init.append('{')
            for tn, tt in temps:
                self.global_init.append('  %s;' % self.decl(tt, tn))
            self.global_init += ['  ' + x for x in stm]
            self.global_init.append('}')
            return ['/* static %s hoisted: %s */' % (name, g)]
        if ti.ref:
            out = ['%s;' % self.decl(ti, name, byref=True)]
            if init is not None:
                out.append('%s = %s;' % (name, self.addr(init)))
            return out
        out = ['%s;' % self.decl(ti, name)]
        if init is not None:
            out += self.init_lvalue(name, ti, init)
        elif ti.kind in ('rec',):
            pass
        if self.lib:
            extra = self.lib.after_vardecl(self, name, ti, init)
            if extra:
                out += extra
        return out

    def mentions_local(self, n):
        if n.get('kind') == 'DeclRefExpr':
            rd = n.get('referencedDecl', {})
            if rd.get('id') in self.cur.locals:
                nm, ti = self.cur.locals[rd['id']]
                return not nm.startswith('s__')
        if n.get('kind') == 'CXXThisExpr':
            return True
        return any(self.mentions_local(c) for c in n.get('inner', []))

    def decomposition(self, d):
        ctx = self.cur
        ti = self.T(qt(d))
        init = [c for c in d.get('inner', []) if c.get('kind') not in ('BindingDecl',)]
        binds = [c for c in d.get('inner', []) if c.get('kind') == 'BindingDecl']
        tmp = self.uniq_local('__dc%d' % len(ctx.used_names))
        out = []
        if ti.ref:
            out.append('%s;' % self.decl(ti, tmp, byref=True))
            out.append('%s = %s;' % (tmp, self.addr(init[0])))
            base = '(*%s)' % tmp
        else:
            out.append('%s;' % self.decl(ti, tmp))
            out += self.init_lvalue(tmp, ti, init[0])
            base = tmp
        for i, b in enumerate(binds):
            acc = self.lib.tuple_get(self, ti, base, i) if self.lib else None
            if acc is None and ti.kind == 'opq' and self.opaque_ok:
                # element of an opaque tuple: accessor stub (std::get<i>)
                bt = qt(b) or (qt(b['inner'][0]) if b.get('inner') else '')
                bti = self.T(bt)
                if bti.kind in ('int', 'ec', 'it', 'dur'):
                    key = 'stub__tuple_get_%d__%s' % (i, bti.mangle())
                    self.stubs[key] = (bti.c, ['opq_t'])
                    acc = ('%s(%s)' % (key, base), bti)
                else:
                    key = 'stub__tuple_getref_%d__%s' % (i, bti.mangle())
                    self.stubs[key] = (bti.c + ' *', ['opq_t'])
                    acc = ('(*%s(%s))' % (key, base), bti)
            if acc is None:
                raise Unsupported('structured binding over %s' % ti.c)
            expr, eti = acc
            ctx.bindings[b['id']] = (expr, eti)
        return out

    def s_ReturnStmt(self, n, ind):
        I = '  ' * ind
        ctx = self.cur
        ctx.nreturns += 1
        cov = '/*@RETURN %s %d@*/ ' % (ctx.cname, ctx.nreturns)
        if not n.get('inner'):
            return [I + cov + 'return;']
        v = n['inner'][0]
        if ctx.ret_ti.kind == 'void':
            return [I + self.e(v) + ';', I + cov + 'return;']
        if ctx.ret_ti.ref:
            return [I + cov + 'return %s;' % self.addr(v)]
        return [I + cov + 'return %s;' % self.e_as(v, ctx.ret_ti)]

    def e_as(self, v, ti):
        """expression converted to type ti where the AST keeps the conversion implicit"""
        return self.e(v)

    def s_IfStmt(self, n, ind):
        I = '  ' * ind
        inner = n['inner']
        out = []
        idx = 0
        pre = []
        if n.get('hasInit'):
            pre = self.s(inner[0], ind + 1)
            idx = 1
        if n.get('hasVar'):
            raise Unsupported('if with condition variable')
        if n.get('isConstexpr'):
            # clang keeps only the taken branch's statements meaningful; the
            # condition is a ConstantExpr with a value
            cond = inner[idx]
            val = cond.get('value')
            if val is None:
                val = self.const_eval(cond)
            taken = inner[idx + 1] if str(val) in ('1', 'true') else (inner[idx + 2] if len(inner) > idx + 2 else None)
            if taken is None:
                return []
            return self.s(taken, ind)
        cond = self.e(inner[idx])
        if pre:
            out.append(I + '{')
            out += pre
        out.append(I + 'if (%s)' % cond)
        out += self.block(inner[idx + 1], ind)
        if len(inner) > idx + 2 and inner[idx + 2]:
            out.append(I + 'else')
            out += self.block(inner[idx + 2], ind)
        if pre:
            out.append(I + '}')
        return out

    def const_eval(self, n):
        if 'value' in n:
            return n['value']
        for c in n.get('inner', []):
            v = self.const_eval(c)
            if v is not None:
                return v
        return None

    def block(self, n, ind):
        if n.get('kind') == 'CompoundStmt':
            return self.s(n, ind)
        I = '  ' * ind
        return [I + '{'] + self.s(n, ind + 1) + [I + '}']

    def loop_marker(self, kind):
        ctx = self.cur
        k = len(ctx.loops)
        ctx.loops.append(kind)
        return '/*@LOOP %s %d@*/' % (ctx.cname, k), k

    def s_WhileStmt(self, n, ind):
        I = '  ' * ind
        cond = self.e(n['inner'][0])
        mark, k = self.loop_marker('while')
        out = [I + 'while (%s)' % cond, I + mark]
        body = self.block(n['inner'][1], ind)
        body.insert(1, '  ' * (ind + 1) + '/*@LOOPHEAD %s %d@*/' % (self.cur.cname, k))
        return out + body

    def s_DoStmt(self, n, ind):
        I = '  ' * ind
        mark, k = self.loop_marker('do')
        body = self.block(n['inner'][0], ind)
        cond = self.e(n['inner'][1])
        return [I + 'do', I + mark] + body + [I + 'while (%s);' % cond]

    def s_ForStmt(self, n, ind):
        I = '  ' * ind
        init, condvar, cond, inc, body = n['inner']
        out = [I + '{']
        if init and init.get('kind'):
            out += self.s(init, ind + 1)
        c = self.e(cond) if cond and cond.get('kind') else '1'
        i = self.e(inc) if inc and inc.get('kind') else ''
        mark, k = self.loop_marker('for')
        out.append(I + '  for (; %s; %s)' % (c, i))
        out.append(I + '  ' + mark)
        b = self.block(body, ind + 1)
        b.insert(1, '  ' * (ind + 2) + '/*@LOOPHEAD %s %d@*/' % (self.cur.cname, k))
        out += b
        out.append(I + '}')
        return out

    def s_CXXForRangeStmt(self, n, ind):
        # inner: [init?, range decl, begin decl, end decl, cond, inc, loopvar decl, body]
        I = '  ' * ind
        inner = n['inner']
        out = [I + '{']
        rng, beg, end, cond, inc, var, body = inner[-7:]
        if inner[0] and inner[0].get('kind') and len(inner) == 8:
            out += self.s(inner[0], ind + 1)
        out += self.s(rng, ind + 1)
        out += self.s(beg, ind + 1)
        out += self.s(end, ind + 1)
        mark, k = self.loop_marker('range-for')
        out.append(I + '  for (; %s; %s)' % (self.e(cond), self.e(inc)))
        out.append(I + '  ' + mark)
        out.append(I + '  {')
        out.append('  ' * (ind + 2) + '/*@LOOPHEAD %s %d@*/' % (self.cur.cname, k))
        out += self.s(var, ind + 2)
        out += self.block(body, ind + 2)
        out.append(I + '  }')
        out.append(I + '}')
        return out

    def s_BreakStmt(self, n, ind):
        return ['  ' * ind + 'break;']

    def s_ContinueStmt(self, n, ind):
        return ['  ' * ind + 'continue;']

    def s_SwitchStmt(self, n, ind):
        I = '  ' * ind
        inner = [c for c in n['inner'] if c and c.get('kind')]
        out = [I + 'switch (%s)' % self.e(inner[0])]
        out += self.block(inner[-1], ind)
        return out

    def s_CaseStmt(self, n, ind):
        I = '  ' * ind
        inner = n['inner']
        v = self.e(inner[0])
        out = [I + 'case %s:' % v]
        out += self.s(inner[-1], ind + 1)
        return out

    def s_DefaultStmt(self, n, ind):
        return ['  ' * ind + 'default:'] + self.s(n['inner'][0], ind + 1)

    # ----------------------------------------------------------- expressions
    def e(self, n):
        k = n.get('kind')
        m = getattr(self, 'e_' + k, None)
        if m is None:
            raise Unsupported('expression kind %s at %s:%s in %s' % (k, n.get('_bfile'), n.get('_bline'), self.cur.cname if self.cur else '?'))
        return m(n)

    def addr(self, n):
        """address of the object denoted by glvalue n (or of a temporary holding prvalue n)"""
        if n.get('valueCategory') == 'prvalue' and n.get('kind') not in ('MaterializeTemporaryExpr',):
            k = n.get('kind')
            if k in ('ImplicitCastExpr',) and n.get('castKind') in ('NoOp', 'DerivedToBase', 'UncheckedDerivedToBase') and n['inner'][0].get('valueCategory') != 'prvalue':
                return self.addr(n['inner'][0])
            x = self.e(n)
            ti = self.T(qt(n))
            t = self.cur.temp(ti)
            return '(%s = %s, &%s)' % (t, x, t)
        x = self.e(n)
        if x.startswith('(*') and x.endswith(')') and balanced(x[2:-1]):
            return x[2:-1]
        if n.get('valueCategory') in ('xvalue', 'prvalue') or re.match(r'^\(?(/\*@CALL[^@]*@\*/)?\w+\(', x) and not x.startswith('(*'):
            # a temporary that clang did not materialise explicitly (member call on
            # a by-value result): give it storage
            ti = self.T(qt(n))
            t = self.cur.temp(ti)
            return '(%s = %s, &%s)' % (t, x, t)
        return '&' + x

    def e_ParenExpr(self, n):
        return '(' + self.e(n['inner'][0]) + ')'

    def e_ConstantExpr(self, n):
        return self.e(n['inner'][0])

    def e_ExprWithCleanups(self, n):
        return self.e(n['inner'][0])

    def e_CXXBindTemporaryExpr(self, n):
        return self.e(n['inner'][0])

    def e_SubstNonTypeTemplateParmExpr(self, n):
        return self.e(n['inner'][-1])

    def e_MaterializeTemporaryExpr(self, n):
        inner = n['inner'][0]
        x = self.e(inner)          # first: a lambda registers its closure type here
        ti = self.T(qt(n))
        t = self.cur.temp(ti)
        return '(*(%s = %s, &%s))' % (t, x, t)

    def e_IntegerLiteral(self, n):
        t = strip_cv(qt(n))
        v = n['value']
        suf = {'unsigned int': 'u', 'long': 'l', 'unsigned long': 'ul', 'long long': 'll', 'unsigned long long': 'ull'}.get(t, '')
        return v + suf

    def e_CharacterLiteral(self, n):
        return '((char)%d)' % n['value']

    def e_CXXBoolLiteralExpr(self, n):
        return '1' if n['value'] else '0'

    def e_CXXNullPtrLiteralExpr(self, n):
        return '0'

    def e_FloatingLiteral(self, n):
        return n['value']

    def e_StringLiteral(self, n):
        return n['value']

    def e_UnaryExprOrTypeTraitExpr(self, n):
        if n.get('name') == 'sizeof':
            if 'argType' in n:
                a = n['argType']
                ti = self.T(a.get('desugaredQualType') or a.get('qualType'))
            else:
                ti = self.T(qt(n['inner'][0]))
            if ti.kind in ('int', 'ptr'):
                return 'sizeof(%s)' % ti.c
            if ti.kind == 'array' and ti.elem.kind in ('int', 'rec'):
                return '(sizeof(%s) * %dul)' % (ti.elem.c, ti.n)
            if ti.kind == 'rec':
                # layout of repository records of scalar fields is the same in C
                return 'sizeof(%s)' % ti.c
        raise Unsupported('sizeof/alignof of %s' % n.get('argType'))

    def e_DeclRefExpr(self, n):
        rd = n['referencedDecl']
        rid = rd['id']
        ctx = self.cur
        k = rd.get('kind')
        if rid in ctx.locals:
            nm, ti = ctx.locals[rid]
            return '(*%s)' % nm if ti.ref else nm
        if rid in ctx.captures:
            return ctx.captures[rid]
        if k == 'BindingDecl':
            if rid in ctx.bindings:
                return ctx.bindings[rid][0]
            raise Unsupported('binding %s' % rd.get('name'))
        if k == 'EnumConstantDecl':
            if rid in self.ast.enumconst:
                v, en = self.ast.enumconst[rid]
                ti = self.T(en['_qname'])
                return '((%s)%d /*%s*/)' % (ti.c, v, rd.get('name'))
            if self.lib:
                x = self.lib.enum_constant(self, n)
                if x is not None:
                    return x
            raise Unsupported('enum constant %s' % rd.get('name'))
        if k in ('FunctionDecl', 'CXXMethodDecl'):
            fn = self.ast.byid.get(rid)
            if fn is not None and has_body(fn):
                return self.want(fn)
            return rd.get('name')
        if k in ('VarDecl', 'VarTemplateSpecializationDecl'):
            vd = self.ast.byid.get(rid)
            if vd is not None and vd.get('kind') in ('VarDecl', 'VarTemplateSpecializationDecl'):
                if '_qname' not in vd:
                    vd['_qname'] = (vd.get('name') or 'var') + '_' + re.sub(r'[^A-Za-z0-9]+', '_', qt(vd))[-40:]
                return self.global_var(vd)
            if self.lib:
                x = self.lib.global_ref(self, n)
                if x is not None:
                    return x
            if self.opaque_ok and self.T(qt(n)).kind == 'opq':
                # library object (x3::big_word, asio::error::..., ...): an opaque handle
                g = 'g_opq__' + sanitize(rd.get('name'))
                self.globals[g] = 'opq_t %s;' % g
                return g
            raise Unsupported('reference to non-repository variable %s' % rd.get('name'))
        if k == 'ParmVarDecl':
            # parameter of an enclosing function (lambda captured by ref etc.)
            if rid in ctx.captures:
                return ctx.captures[rid]
            raise Unsupported('parameter %s outside its function' % rd.get('name'))
        if k == 'NonTypeTemplateParmDecl':
            raise Unsupported('dependent non-type template parameter')
        raise Unsupported('DeclRefExpr to %s' % k)

    def global_var(self, vd):
        q = vd.get('_qname') or vd['name']
        c = 'g__' + sanitize(q)
        if c in self.globals:
            return c
        ti = self.T(qt(vd))
        self.globals[c] = None
        if ti.kind == 'opq':
            # an object kept opaque (tag objects such as prop::maximum_qos): a distinct handle
            self.opq_global_count = getattr(self, 'opq_global_count', 100) + 1
            self.globals[c] = 'opq_t %s;' % c
            self.global_init.append('%s = %d;' % (c, self.opq_global_count))
            return c
        init = [x for x in vd.get('inner', []) if 'kind' in x and not x['kind'].endswith('Comment') and x['kind'] != 'TemplateArgument']
        prev = self.cur
        self.cur = FnCtx(self, vd, '__cxx_global_init')
        stm = self.init_lvalue(c, ti, init[0]) if init else []
        temps = self.cur.temps
        self.cur = prev
        self.globals[c] = '%s;' % self.decl(ti, c)
        if temps:
            self.global_init.append('{')
            for tn, tt in temps:
                self.global_init.append('  %s;' % self.decl(tt, tn))
            self.global_init += ['  ' + x for x in stm]
            self.global_init.append('}')
        else:
            self.global_init += stm
        return c

    def e_MemberExpr(self, n):
        base = n['inner'][0]
        name = n['name']
        b = self.e(base)
        if self.lib:
            x = self.lib.member(self, n, base, b)
            if x is not None:
                return x
        bti0 = self.T(qt(base))
        if bti0.kind == 'ptr' and n.get('isArrow'):
            bti0 = bti0.elem
        if self.opaque_ok and bti0.kind == 'opq':
            # data member of an object kept opaque: opaque handle, or a getter stub for scalars
            mt = self.T(qt(n))
            if mt.kind == 'opq':
                return '((opq_t)0 /*.%s*/)' % name
            if mt.kind in ('int', 'ec', 'it', 'dur') and n.get('valueCategory') != 'lvalue':
                key = 'stub__get__' + sanitize(name)
                self.stubs[key] = (mt.c, ['opq_t'])
                return '%s(%s)' % (key, b)
            key = 'stub__getref__' + sanitize(name)
            self.stubs[key] = (mt.c + ' *', ['opq_t'])
            return '(*%s(%s))' % (key, b)
        fd = self.ast.byid.get(n.get('referencedMemberDecl'))
        if fd is not None and fd.get('kind') == 'FieldDecl':
            fti = self.T(qt(fd))
            acc = '%s->%s' % (b, name) if n.get('isArrow') else '%s.%s' % (b, name)
            return '(*%s)' % acc if fti.ref else acc
        # member of a (library) base class reached through a derived-to-base cast
        inner = base
        while inner.get('kind') in ('ImplicitCastExpr', 'ParenExpr') and inner.get('castKind', 'NoOp') in ('UncheckedDerivedToBase', 'DerivedToBase', 'NoOp'):
            inner = inner['inner'][0]
        if inner is not base:
            iti = self.T(qt(inner))
            rti = iti.elem if iti.kind == 'ptr' else iti
            if rti is not None and rti.kind == 'rec':
                for f in self.fields_of(rti.decl):
                    if f['name'] == name:
                        fti = f.get('_ti') or self.T(qt(f))
                        acc = '%s->%s' % (b, name) if n.get('isArrow') else '%s.%s' % (b, name)
                        return '(*%s)' % acc if fti.ref else acc
        mti = self.T(qt(n))
        if self.opaque_ok and mti.kind == 'opq':
            # data member of a library base class: opaque handle
            return '((opq_t)0 /*.%s*/)' % name
        if self.opaque_ok and mti.kind == 'rec' and not self.fields_of(mti.decl):
            # stateless repository object held in a library base class (x3 subject)
            t = self.cur.temp(mti)
            return '(*(&%s) /*.%s*/)' % (t, name)
        raise Unsupported('member %s of %s' % (name, qt(base)))

    def e_CXXThisExpr(self, n):
        if getattr(self.cur, 'lambda_this', None):
            return self.cur.lambda_this
        return 'self'

    def e_ImplicitCastExpr(self, n):
        ck = n.get('castKind')
        sub = n['inner'][0]
        if ck in ('LValueToRValue', 'NoOp', 'FunctionToPointerDecay', 'ArrayToPointerDecay',
                  'ConstructorConversion', 'UserDefinedConversion', 'DerivedToBase', 'UncheckedDerivedToBase', 'BuiltinFnToFnPtr'):
            x = self.e(sub)
            if ck == 'LValueToRValue':
                m = re.match(r'^\(\*(sv_at|sv_front|sv_back|it_deref)\((.*)\)\)$', x)
                if m and balanced(m.group(2)):
                    return '%s_v(%s)' % (m.group(1), m.group(2))
            return x
        if ck in ('IntegralCast', 'IntegralToBoolean', 'PointerToBoolean', 'BitCast', 'NullToPointer', 'IntegralToFloating', 'FloatingToIntegral', 'FloatingCast', 'ToVoid', 'IntegralToPointer', 'PointerToIntegral'):
            ti = self.T(qt(n))
            if ti.kind == 'opq':
                return self.e(sub)
            if ck == 'ToVoid':
                return '((void)%s)' % self.e(sub)
            return '((%s)%s)' % (ti.c, self.e(sub))
        raise Unsupported('cast kind %s' % ck)

    def e_CStyleCastExpr(self, n):
        return self.e_explicit_cast(n)

    def e_CXXStaticCastExpr(self, n):
        return self.e_explicit_cast(n)

    def e_CXXReinterpretCastExpr(self, n):
        return self.e_explicit_cast(n)

    def e_CXXConstCastExpr(self, n):
        return self.e(n['inner'][0])

    def e_CXXFunctionalCastExpr(self, n):
        return self.e_explicit_cast(n)

    def e_explicit_cast(self, n):
        ck = n.get('castKind')
        sub = n['inner'][0]
        if ck in ('NoOp', 'ConstructorConversion', 'UserDefinedConversion', 'LValueToRValue', 'DerivedToBase'):
            return self.e(sub)
        ti = self.T(qt(n))
        if ti.kind in ('int', 'ptr'):
            if ck == 'ToVoid':
                return '((void)%s)' % self.e(sub)
            return '((%s)%s)' % (ti.c, self.e(sub))
        if ti.kind == 'void':
            return '((void)%s)' % self.e(sub)
        if self.lib:
            x = self.lib.cast(self, n, ti, sub)
            if x is not None:
                return x
        return self.e(sub)

    def e_BinaryOperator(self, n):
        a, b = n['inner']
        op = n['opcode']
        if op == ',':
            return '(%s, %s)' % (self.e(a), self.e(b))
        if self.lib:
            x = self.lib.binop(self, n, op, a, b)
            if x is not None:
                return x
        return '(%s %s %s)' % (self.e(a), op, self.e(b))

    def e_CompoundAssignOperator(self, n):
        a, b = n['inner']
        if self.lib:
            x = self.lib.binop(self, n, n['opcode'], a, b)
            if x is not None:
                return x
        # C performs the same usual arithmetic conversions as C++ here
        return '(%s %s %s)' % (self.e(a), n['opcode'], self.e(b))

    def e_UnaryOperator(self, n):
        op = n['opcode']
        sub = n['inner'][0]
        if self.lib:
            x = self.lib.unop(self, n, op, sub)
            if x is not None:
                return x
        x = self.e(sub)
        if op == '*':
            return '(*%s)' % x
        if op == '&':
            return self.addr(sub)
        if n.get('isPostfix'):
            return '(%s%s)' % (x, op)
        return '(%s%s)' % (op, x)

    def e_ConditionalOperator(self, n):
        c, a, b = n['inner']
        return '(%s ? %s : %s)' % (self.e(c), self.e(a), self.e(b))

    def e_ArraySubscriptExpr(self, n):
        a, b = n['inner']
        return '%s[%s]' % (self.e(a), self.e(b))

    def e_InitListExpr(self, n):
        ti = self.T(qt(n))
        if ti.kind in ('int', 'ptr', 'it', 'ec', 'dur', 'opq'):
            if not n.get('inner'):
                return '((%s)0)' % ti.c
            return self.e(n['inner'][0])
        if ti.kind not in ('rec', 'array'):
            if not n.get('inner'):
                return '((%s){0})' % ti.c if ti.kind in ('pair', 'opt', 'vec', 'sv', 'str') else '((%s)0)' % ti.c
            raise Unsupported('braced initialiser of %s' % ti.c)
        t = self.cur.temp(ti)
        st = self.init_lvalue(t, ti, n)
        return '(%s %s)' % (' '.join(x.rstrip(';') + ',' for x in st), t)

    def e_CXXDefaultArgExpr(self, n):
        raise Unsupported('default argument outside a call')

    def e_CXXScalarValueInitExpr(self, n):
        ti = self.T(qt(n))
        return '((%s)0)' % ti.c

    def e_ImplicitValueInitExpr(self, n):
        ti = self.T(qt(n))
        return '((%s)0)' % ti.c

    def e_CXXConstructExpr(self, n):
        ti = self.T(qt(n))
        if self.lib:
            x = self.lib.construct(self, n, ti)
            if x is not None:
                return x
        if ti.kind == 'rec':
            args = n.get('inner', [])
            ctype = n.get('ctorType', {}).get('qualType', '')
            ctor = self.find_ctor(ti.decl, ctype)
            if (ctor is None or ctor.get('isImplicit') or ctor.get('explicitlyDefaulted') or not has_body(ctor)) and len(args) == 1:
                return self.e(args[0])
            t = self.cur.temp(ti)
            st = self.construct_into(t, ti, n)
            return '(%s %s)' % (' '.join(x.rstrip(';') + ',' for x in st), t)
        if ti.kind in ('int', 'ptr') and len(n.get('inner', [])) == 1:
            return self.e(n['inner'][0])
        if ti.kind == 'opq' and self.opaque_ok:
            args = [a for a in n.get('inner', []) if a.get('kind') != 'CXXDefaultArgExpr']
            if not args:
                return '((opq_t)0 /*%s{}*/)' % sanitize(self.short_type(qt(n)))[:40]
            return self.stub_call(n, {'name': 'ctor'}, args, name='ctor__' + sanitize(self.short_type(qt(n)))[:60])
        raise Unsupported('construction of %s (%s)' % (qt(n), ti.kind))

    def e_CXXTemporaryObjectExpr(self, n):
        return self.e_CXXConstructExpr(n)

    def callee_decl(self, n):
        """(referencedDecl stub, full decl or None) of a CallExpr-like node"""
        c = n['inner'][0]
        while c.get('kind') in ('ImplicitCastExpr', 'ParenExpr'):
            c = c['inner'][0]
        if c.get('kind') == 'DeclRefExpr':
            rd = c['referencedDecl']
            return rd, self.ast.byid.get(rd['id']), c
        if c.get('kind') == 'MemberExpr':
            rid = c.get('referencedMemberDecl')
            full = self.ast.byid.get(rid)
            return {'id': rid, 'name': c.get('name'), 'kind': 'CXXMethodDecl'}, full, c
        return None, None, c

    def note_call(self, name):
        ctx = self.cur
        k = sum(1 for x in ctx.calls if x == name)
        ctx.calls.append(name)
        return '/*@CALL %s %s %d@*/' % (ctx.cname, name, k)

    def e_CallExpr(self, n):
        rd, full, cnode = self.callee_decl(n)
        args = n['inner'][1:]
        if rd is not None and rd.get('kind') == 'ParmVarDecl' and rd['id'] in self.cur.fnparams:
            full = self.cur.fnparams[rd['id']]
        if full is not None and full.get('kind') in ('FunctionDecl', 'CXXMethodDecl') and has_body(full) and not self.force_stub(full):
            spec = {}
            ps = params_of(full)
            keep = []
            for i, a in enumerate(args):
                if i < len(ps) and self.T(qt(ps[i])).kind == 'fn':
                    t = a
                    while t.get('kind') in ('ImplicitCastExpr', 'ParenExpr'):
                        t = t['inner'][0]
                    if t.get('kind') == 'DeclRefExpr' and t['referencedDecl'].get('kind') == 'FunctionDecl':
                        tgt = self.ast.byid.get(t['referencedDecl']['id'])
                        if tgt is not None and has_body(tgt):
                            spec[ps[i]['id']] = tgt
                            continue
                    if t.get('kind') == 'DeclRefExpr' and t['referencedDecl'].get('id') in self.cur.fnparams:
                        spec[ps[i]['id']] = self.cur.fnparams[t['referencedDecl']['id']]
                        continue
                    raise Unsupported('function-typed argument that is not a named repository function')
                keep.append(i)
            cn = self.want(full, spec or None)
            a = self.call_args(full, args, only=keep)
            rti = self.T(self.ret_type(full))
            call = '(%s%s(%s))' % (self.note_call(cn), cn, ', '.join(a))
            return '(*%s)' % call if rti.ref else call
        if self.lib:
            x = self.lib.call(self, n, rd, full, cnode, args)
            if x is not None:
                return x
        return self.stub_call(n, rd, args, cnode=cnode)

    def handler_fields(self, ti):
        """fields of a repository record that hold a type-erased completion handler"""
        return [f for f in self.fields_of(ti.decl) if 'any_completion_handler' in (qt(f) + qt_sugar(f)) or qt_sugar(f).strip() in ('handler_type',)]

    def record_mover(self, ti):
        """T__move(T *src): member-wise move construction; a moved-from
        any_completion_handler is empty (assumed Asio contract)"""
        nm = ti.c.replace('struct ', '') + '__move'
        if nm not in self.extra_fns:
            zero = ' '.join('src->%s = 0;' % f['name'] for f in self.handler_fields(ti))
            self.extra_fns[nm] = 'static inline %s %s(%s *src) { %s r = *src; %s return r; }' % (ti.c, nm, ti.c, ti.c, zero)
        return nm

    def force_stub(self, fn):
        """calls that leave the part of the repository this unit puts under
        contract become stubs (skeleton mode): decided by the unit's inline-only
        patterns on the callee's qualified name"""
        pats = getattr(self, 'inline_only', None)
        if not pats:
            return False
        q = fn.get('_qname') or ''
        for pat, rep in self.aliases:
            q = re.sub(pat, rep, q)
        return not any(re.search(p, q) for p in pats)

    def callee_param_types(self, cnode):
        """parameter type spellings of a library callee, from the callee expression's function type"""
        t = (cnode.get('type') or {}).get('qualType', '') if cnode else ''
        if cnode is not None and cnode.get('kind') == 'MemberExpr':
            return None
        depth = 0
        start = None
        for i, ch in enumerate(t):
            if ch in '<[':
                depth += 1
            elif ch in '>]':
                depth -= 1
            elif ch == '(' and depth == 0 and start is None:
                start = i
                break
        if start is None:
            return None
        # matching close
        d = 0
        end = None
        for i in range(start, len(t)):
            if t[i] == '(':
                d += 1
            elif t[i] == ')':
                d -= 1
                if d == 0:
                    end = i
                    break
        if end is None:
            return None
        return split_top(t[start + 1:end])

    def stub_call(self, n, rd, args, name=None, objs=(), cnode=None):
        """class 3: opaque callee -> stub named after the callee.  Arguments bound
        to non-const lvalue reference parameters are passed by address (the stub
        may change them, subject to its assumed contract)."""
        if not self.opaque_ok:
            raise Unsupported('call to %s outside the tables' % (rd or {}).get('name'))
        name = name or sanitize((rd or {}).get('name') or 'indirect')
        rti = self.T(qt(n))
        a = list(objs)
        atys = ['opq_t'] * len(a)
        ptys = self.callee_param_types(cnode)
        for i, x in enumerate(args):
            if x.get('kind') == 'CXXDefaultArgExpr':
                continue
            if qt(x).startswith('(lambda at') or strip_cv(qt(x)).startswith('(lambda at'):
                ax = self.addr(x)      # emits the closure and registers its type
                a.append(ax)
                atys.append(self.T(qt(x)).c + ' *')
                continue
            ti = self.T(qt(x))
            byref_out = False
            if (rd or {}).get('name') in NON_MUTATING_LIB:
                pass
            elif ptys is not None and i < len(ptys):
                p = ptys[i].strip()
                base = p[:-1].strip()
                if p.endswith('&') and not p.endswith('&&') and not (base.startswith('const ') or base.endswith(' const')):
                    byref_out = x.get('valueCategory') == 'lvalue'
            if (rd or {}).get('name') in NON_MUTATING_LIB:
                pass
            elif ptys is None and x.get('valueCategory') == 'lvalue' and x.get('kind') in ('DeclRefExpr', 'MemberExpr') \
                    and not qt_sugar(x).strip().startswith('const ') and ti.kind in ('int', 'it', 'vit', 'ptr', 'ec', 'dur'):
                # no parameter types known (member of a library class): a non-const
                # lvalue argument may be bound to a non-const reference
                byref_out = True
            if x.get('kind') == 'LambdaExpr' or (ti.kind == 'rec' and ti.c.startswith('struct lam__')):
                a.append(self.addr(x))
                atys.append(ti.c + ' *')
            elif ti.kind == 'fn':
                y = x
                while y.get('kind') in ('ImplicitCastExpr', 'ParenExpr'):
                    y = y['inner'][0]
                if y.get('kind') == 'DeclRefExpr':
                    # a named function passed to an opaque callee: a constant that identifies it
                    nm = 'FNID_' + sanitize(y['referencedDecl'].get('name') or 'fn')
                    if nm not in self.lib_enums:
                        self.lib_enums.append(nm)
                    a.append(nm)
                else:
                    # a completion token built by library calls (asio::prepend(std::move(*this), ...)):
                    # evaluated for its effects on the ghost counters
                    a.append('((opq_t)%s)' % self.e(x))
                atys.append('opq_t')
            elif byref_out or ti.kind in ('rec',) or (x.get('valueCategory') != 'prvalue' and ti.kind not in ('int', 'ptr', 'opq', 'ec', 'it', 'dur', 'vit', 'nullopt')):
                a.append(self.addr(x))
                # only arguments bound to non-const lvalue references may be changed by the callee
                atys.append(ti.c + (' *' if byref_out else ' * /*in*/'))
            else:
                y = x
                while y.get('kind') in ('ImplicitCastExpr', 'ParenExpr') and y.get('castKind', 'NoOp') in ('DerivedToBase', 'UncheckedDerivedToBase', 'NoOp'):
                    y = y['inner'][0]
                if ti.kind == 'opq' and y is not x and self.T(qt(y)).kind == 'rec' and y.get('valueCategory') == 'lvalue':
                    # a repository object seen through a library base class: its address is the handle
                    a.append('((opq_t)(long)%s)' % self.addr(y))
                    atys.append('opq_t')
                    continue
                ex = self.e(x)
                mm = re.match(r'^\(\*\(g_moved_self\+\+, (\w+)\)\)$', ex)
                if mm and ti.kind == 'opq':
                    # std::move(*this) handed to an opaque callee: the handle of the operation
                    ex = '((opq_t)(g_moved_self++, (long)%s))' % mm.group(1)
                a.append(ex)
                atys.append(ti.c)
        sname = 'stub__' + name
        for pat, rep in getattr(self, 'stub_aliases', []):
            if re.search(pat, sname):
                sname = re.sub(pat, rep, sname)
                break
        # a call expression that is an lvalue returns a reference
        isref = rti.ref or (n.get('valueCategory') == 'lvalue' and rti.kind != 'void')
        retc = rti.c + (' *' if isref else '')
        key = sname
        if any(re.search(rx, sname) for rx in getattr(self.spec, 'stub_by_signature', []) or []):
            # opt-in (stub-by-signature <regex>): overloads are told apart by their argument types, not by
            # the order in which they are met, so that an overload that disappears does not rename the others
            tag = '_'.join(re.sub(r'[^A-Za-z0-9]+', '_', t.replace('/*in*/', '').replace('struct ', '').replace(' *', 'p')).strip('_') for t in atys) or 'void'
            key = '%s__%s' % (sname, tag)
        k = 2
        while key in self.stubs and self.stubs[key] != (retc, atys):
            key = '%s_%d' % (sname, k)
            k += 1
        self.stubs[key] = (retc, atys)
        call = '(%s%s(%s))' % (self.note_call(key), key, ', '.join(a))
        return '(*%s)' % call if isref else call

    def e_CXXMemberCallExpr(self, n):
        rd, full, cnode = self.callee_decl(n)
        args = n['inner'][1:]
        obj = cnode['inner'][0] if cnode.get('kind') == 'MemberExpr' else None
        if full is not None and has_body(full) and full.get('kind') in ('CXXMethodDecl', 'CXXConversionDecl') and not self.force_stub(full):
            cn = self.want(full)
            a = self.call_args(full, args)
            if not self.is_static_method(full):
                o = self.e(obj) if cnode.get('isArrow') else self.addr(obj)
                a = [o] + a
            rti = self.T(self.ret_type(full))
            call = '(%s%s(%s))' % (self.note_call(cn), cn, ', '.join(a))
            return '(*%s)' % call if rti.ref else call
        if self.lib:
            x = self.lib.member_call(self, n, cnode, obj, args)
            if x is not None:
                return x
        oti = self.T(qt(obj)) if obj is not None else None
        cls = sanitize(self.short_type(qt(obj))) if obj is not None else ''
        if oti is not None and oti.kind == 'ptr':
            cls = sanitize(self.short_type(oti.elem.name or oti.elem.c))
        o = []
        if obj is not None:
            y = obj
            while y.get('kind') in ('ImplicitCastExpr', 'ParenExpr') and y.get('castKind', 'NoOp') in ('DerivedToBase', 'UncheckedDerivedToBase', 'NoOp'):
                y = y['inner'][0]
            yti = self.T(qt(y))
            if oti.kind == 'opq' and yti.kind == 'rec' and not cnode.get('isArrow'):
                # repository object used through a library base class: its address is the handle
                o = ['((opq_t)(long)%s)' % self.addr(y)]
            else:
                o = [self.e(obj)] if (cnode.get('isArrow') or oti.kind == 'opq') else [self.addr(obj)]
        return self.stub_call(n, rd, args, name='%s__%s' % (cls, sanitize(cnode.get('name', 'm'))), objs=o)

    def e_CXXOperatorCallExpr(self, n):
        rd, full, cnode = self.callee_decl(n)
        args = n['inner'][1:]
        if full is not None and full.get('name') == 'operator=' and (full.get('isImplicit') or full.get('explicitlyDefaulted')) and len(args) == 2:
            # implicitly defined / defaulted copy or move assignment: member-wise
            if self.T(qt(args[0])).kind == 'rec':
                return '(%s = %s)' % (self.e(args[0]), self.e(args[1]))
        if full is not None and has_body(full) and not self.force_stub(full):
            cn = self.want(full)
            if full.get('kind') == 'CXXMethodDecl' and not self.is_static_method(full):
                a = [self.addr(args[0])] + self.call_args(full, args[1:])
            else:
                a = self.call_args(full, args)
            rti = self.T(self.ret_type(full))
            call = '(%s%s(%s))' % (self.note_call(cn), cn, ', '.join(a))
            return '(*%s)' % call if rti.ref else call
        if self.lib:
            x = self.lib.operator_call(self, n, rd, args)
            if x is not None:
                return x
        return self.stub_call(n, rd, args, name=sanitize(self.short_type(qt(args[0])) + '__' + (rd or {}).get('name', 'op')))

    def e_LambdaExpr(self, n):
        """closure object: struct of captures (by reference -> pointer field) plus
        one C function per operator() (for a generic lambda: per instantiated
        specialisation).  The value of the expression is the closure struct."""
        ctx = self.cur
        rec = n['inner'][0]
        fields = [c for c in rec.get('inner', []) if c.get('kind') == 'FieldDecl']
        rest = [c for c in n['inner'][1:]]
        body = rest[-1] if rest and rest[-1].get('kind') == 'CompoundStmt' else None
        inits = rest[:-1] if body is not None else rest
        k = self.lambda_count = getattr(self, 'lambda_count', 0) + 1
        sname = 'lam__%s__%d' % (ctx.cname, len([x for x in self.lambdas_of.get(ctx.cname, [])]))
        self.lambdas_of.setdefault(ctx.cname, []).append(sname)
        lines = ['struct %s {' % sname]
        capmap = {}
        setup = []
        pending_init = []
        t_ti = TI('rec', 'struct ' + sname, decl=rec)
        tmp = ctx.temp(t_ti)
        for i, (f, ini) in enumerate(zip(fields, inits)):
            fti = self.T(qt(f))
            lines.append('  %s;' % self.decl(fti, 'cap%d' % i, byref=fti.ref))
            x = ini
            while x.get('kind') in ('CXXConstructExpr', 'ImplicitCastExpr', 'MaterializeTemporaryExpr') and x.get('inner'):
                if x.get('kind') == 'CXXConstructExpr' and len(x['inner']) != 1:
                    break
                x = x['inner'][0]
            if x.get('kind') == 'DeclRefExpr':
                capmap[x['referencedDecl']['id']] = ('(*self->cap%d)' if fti.ref else 'self->cap%d') % i
            elif x.get('kind') == 'CXXThisExpr':
                capmap['this'] = 'self->cap%d' % i
            else:
                # init-capture [v = expr]: the captured variable is found in the body by its type
                pending_init.append((i, fti, qt(f)))
            if fti.ref:
                setup.append('%s.cap%d = %s' % (tmp, i, self.addr(ini)))
            elif ini.get('kind') == 'CXXThisExpr':
                setup.append('%s.cap%d = self' % (tmp, i))
            else:
                setup.append('%s.cap%d = %s' % (tmp, i, self.e(ini)))
        if pending_init and body is not None:
            declared = set()
            refs = []

            def scan(nn):
                if nn.get('kind') == 'VarDecl':
                    declared.add(nn.get('id'))
                if nn.get('kind') == 'DeclRefExpr' and nn['referencedDecl'].get('kind') == 'VarDecl':
                    refs.append(nn['referencedDecl'])
                for cc in nn.get('inner', []):
                    scan(cc)
            scan(body)
            for i, fti, ftype in pending_init:
                for rdd in refs:
                    if rdd['id'] in declared or rdd['id'] in ctx.locals or rdd['id'] in capmap:
                        continue
                    rt = (rdd.get('type') or {})
                    rts = rt.get('desugaredQualType') or rt.get('qualType') or ''
                    if strip_cv(rts) == strip_cv(ftype):
                        capmap[rdd['id']] = 'self->cap%d' % i
                        break
        if not fields:
            lines.append('  char _empty;')
        lines.append('};')
        self.struct_defs[sname] = '\n'.join(lines)
        self.struct_order.append(sname)
        ctx.lambda_types[qt(n)] = t_ti
        # operator() definitions
        ops = []
        for c in rec.get('inner', []):
            if c.get('kind') == 'CXXMethodDecl' and c.get('name') == 'operator()' and has_body(c):
                ops.append(c)
            if c.get('kind') == 'FunctionTemplateDecl' and c.get('name') == 'operator()':
                first = True
                for cc in c.get('inner', []):
                    if cc.get('kind') == 'CXXMethodDecl':
                        if first:
                            first = False
                            continue
                        if has_body(cc):
                            ops.append(cc)
        names = []
        for j, op in enumerate(ops):
            op['_qname'] = '%s::lambda%d::operator()' % (ctx.fn.get('_qname', ctx.cname), len(self.lambdas_of[ctx.cname]) - 1)
            cn = '%s__op%d' % (sname, j)
            key = (op['id'], ())
            self.cnames[key] = cn
            self.used_cnames[cn] = key
            self.lambda_ctx[op['id']] = (t_ti, capmap, ctx.this_ti)
            self.work.append((op, None, cn))
            names.append(cn)
        self.lambda_ops[sname] = names
        return '(%s, %s)' % (', '.join(setup), tmp) if setup else tmp

    def e_CXXNewExpr(self, n):
        raise Unsupported('new-expression')

    def e_CXXThrowExpr(self, n):
        raise Unsupported('throw-expression')

    def e_OpaqueValueExpr(self, n):
        return self.e(n['inner'][0])

    def e_StmtExpr(self, n):
        raise Unsupported('statement expression')


EXPR_KINDS = {m[2:] for m in dir(Emitter) if m.startswith('e_')}


def balanced(s):
    d = 0
    for ch in s:
        if ch == '(':
            d += 1
        elif ch == ')':
            d -= 1
            if d < 0:
                return False
    return d == 0


class FnCtx:
    def __init__(self, em, fn, cname):
        self.em = em
        self.fn = fn
        self.cname = cname
        self.locals = {}
        self.bindings = {}
        self.captures = {}
        self.lambda_types = {}
        self.fnparams = {}
        self.temps = []
        self.loops = []
        self.calls = []
        self.used_names = set()
        self.nreturns = 0
        self.this_ti = None
        self.ret_ti = None

    def temp(self, ti):
        nm = '__t%d' % len(self.temps)
        self.temps.append((nm, ti))
        return nm
