#!/usr/bin/env python3
"""Writes MANIFEST.json from the table below (kept here so that the manifest is
always regenerated consistently with what ./check can decide)."""
import json, os, sys
HERE = os.path.dirname(os.path.abspath(__file__))
VERIF = os.path.dirname(HERE)

TECH = "CBMC 6.11 function contracts (goto-instrument --dfcc, enforce/replace, loop contracts) on C emitted per run from /repo's clang AST"

CLAIMED = {
 'C20': dict(
   category='proof',
   text="PROOF, exhaustive: for each of the nine packet categories the real to_reason_code<cat> (emitted from the clang AST of the current tree) is verified under contract for all 256 bytes: accepted only if MQTT 5 lists the code for that packet type, always accepted if a Server may send it, reported value equals the byte, and every access of the binary search stays inside valid_codes<cat>() (CBMC pointer/bounds obligations). The lower_bound model loop is unwound to the constant table size with unwinding assertions (complete).",
   note="Assumes: clang AST = compiled program; cxx2c emitter; models/std.h (pair, optional, libstdc++ lower_bound bisection); spec/reason_tables.h as a correct transcription of MQTT 5 section 2.4; CBMC+cadical.",
   design='5 C20'),
}

CLAIMED['C16'] = dict(
   category='proof',
   text="PROOF, unbounded: pop_front_unichar (decoder) and validate_mqtt_utf8_char are verified, loop-free and for every byte window at any buffer position, equal to a reference written from Unicode Table 3-7 and MQTT 5 1.5.4; the four validate_impl uses (UTF-8 string, topic name, alias name, share name), validate_topic_filter, validate_shared_topic_filter and is_valid_string_pair are verified for strings of EVERY length (loop contracts, prophecy ghost for the fold) to accept exactly the strings the reference recogniser accepts (size limits 0/1/65535, wildcard placement [MQTT-4.7.1-1/2], $share form [MQTT-4.8.2]). Thorough adds an exhaustive native differential run of the real validators against an independent code-point-level reference. The API-level half (where publish/subscribe apply the validators and that rejected requests send nothing) is carried by C15's carriers when built.",
   note="Assumes: clang AST = compiled program; cxx2c; models/std.h string_view model (operator[], remove_prefix/suffix, substr, compare; find_first_of as an assumed contract at a ghost index); definitional unfoldings of the prophecy ghost g_a (ghost-ensures of pop_front_unichar, present only where it is replaced by its contract); spec/utf8_ref.h as a correct reading of Unicode/MQTT; CBMC + cvc5 (SAT array theory does not finish on the symbolic-size buffer) + cadical.",
   design='5 C16')

CLAIMED['C17'] = dict(
   category='proof',
   text="FRAGMENT, proved: the variable byte integer encoder (to_variable_bytes) and its size function (variable_length), for all int32 values: exactly the canonical MQTT 1.5.5 encoding is appended (continuation bits, 7-bit groups, minimal length, boundaries 127/128, 16383/16384, 2097151/2097152), nothing is appended above 268435455, earlier bytes of the string are unchanged; byte_size agrees with the bytes written. The per-packet expression-template encoders (encode_connect ... encode_auth, props_val) are outside the emitter's reach (Boost.Endian / tuple expression templates); for them a BOUNDED NATIVE stand-in runs on every check (replay/encoders.cpp, 12.6k packets over a stated boundary domain: strings of 0/1/10/200 bytes, payloads of 0/1/127/128/16383/16384/70000 bytes, every property singly and all together, all flag combinations): each packet produced by the real encoder is read by an independent reference reader written from MQTT 5 (type and flags of Table 2-2, canonical Remaining Length equal to the bytes that follow, Property Length, only the properties Table 2-4 allows, no forbidden repetition, reserved bits zero, exact consumption) and must carry exactly the values given. It is testing over an enumerated domain, labelled bounded, never counted as proved.",
   note="Assumes the trusted base of DESIGN 7; mutable std::string modelled as a view with room behind it (allocation never fails). Loop bounded by operand width (unwind 5 with unwinding assertion = complete).",
   design='5 C17')
CLAIMED['C18'] = dict(
   category='proof',
   text="FRAGMENT, proved: functional contracts of the hand-written X3 parsers against references from MQTT 5: varint_parser::parse (accepts exactly 1-4 byte encodings, value, advance, failure restores first), len_prefix_parser::parse (succeeds iff 2+len bytes available; attribute = those bytes), scope_limit (subject sees exactly [iter, iter+limit), rejected if beyond last), verbatim_parser, and that an empty remaining range is 'no properties' for all 14 property-list parsers; decode_puback/pubrec/pubrel/pubcomp/disconnect/auth: Remaining Length 0 (reason code and properties omitted) yields the default value without parsing, any longer body is parsed exactly once over [it, it+RL) under scope_limit(RL) and its verdict returned. Whole-packet equality through the Spirit X3 composition is outside the emitter's reach; a BOUNDED NATIVE stand-in runs on every check (replay/encoders.cpp): every packet of the stated boundary domain produced by the real encoders (all 15 packet types) is decoded by the real decode_* and must be accepted, consume exactly its Remaining Length and yield the same fields and properties (testing over an enumerated domain, labelled bounded, never counted as proved); thorough adds the ASan search of replay/decoders.cpp.",
   note="Assumed contracts: x3::skip_over (no skipper installed), x3::big_word, generic X3 subject parser safety contract, properties<...>::apply_on invokes the functor at most once. 16/14/12 template instantiations emit byte-identical C and are verified once.",
   design='5 C18')
CLAIMED['C19'] = dict(
   category='proof',
   text="PROOF of the memory-safety contracts of all hand-written parsing and framing code, for every byte content and every length: uniform parser safety contract (every dereference inside [first,last), first stays in range, failure restores first, termination) for varint/len_prefix/scope_limit/verbatim and the 14 prop_parser<Props>::parse instantiations (the parser that computes its own end); assemble_op::operator()(on_read) (received span arithmetic, frame handed to dispatch lies inside the received bytes), assemble_op::dispatch (decode_packet_id only with two bytes available), valid_header vs MQTT Table 2-2, connect_op::operator()(on_fixed_header) (buffer given to async_read lies inside the string; [first,last) inside it), to_reason_code bounds (shared with C20). NOT decided: Spirit X3 built-ins (assumed safe inside [first,last)), the asynchronous recovery after a malformed packet, chunking independence as a lemma (not mechanised).",
   note="Assumed: X3 built-in safety contracts, Asio writes at most n bytes at p for buffer(p,n), transport delivers at most the bytes it was given, perform() re-enters on_read only with a non-empty span; ghost window [g_lo,g_hi) equalities are assumed only where a contract is enforced. Native replay driver (ASan) for the decoders; framing/handshake violations are reported without a native input (no-failing-input-found).",
   design='5 C19')

CLAIMED['C06'] = dict(
   category='proof',
   text="PROOF of the ordering relation: write_req::operator< verified for all (flags, serial) pairs (prioritized dominates; within a 2^31 window the later serial is greater; equal serials not less), write_req::next_serial_num (+1 mod 2^32), and a lemma mechanised over the comparator's CONTRACT: inside one half window the relation is a strict total order that agrees with initiation order (the precondition stable_sort needs). FRAGMENT: the queue surgery of async_sender (resend, failed batch put back, do_write batch) is carried by the async_sender unit where built; NOT decided: that the transport writes a gather list in order; histories with 2^31 publishes outstanding.",
   note="Trusted base of DESIGN 7. The lemma uses only the contract of write_req::operator< (body replaced).",
   design='5 C06')
CLAIMED['C08'] = dict(
   category='proof',
   text="PROOF (unbounded) for packet_id_allocator::allocate: for every vector length, with the representation invariant stated pointwise at an arbitrary ghost index: returns 0 iff no identifier is free, otherwise the lowest id of the last interval (never 0), shrinks or drops exactly that interval, leaves all others untouched and preserves the invariant. BOUNDED stand-in for free(pid) (3 intervals quick / 7 thorough, everything symbolic): invariant preserved, exactly pid becomes free, 0 never free. NOT decided: interleavings of the holders; that callers release exactly once (op-class skeletons).",
   note="vector modelled as element array + length with element-pointer iterators; std::upper_bound = libstdc++ bisection model; free() is a bounded check, never counted as proved.",
   design='5 C08')
CLAIMED['C12'] = dict(
   category='proof',
   text="PROOF of the keep-alive arithmetic for every K in [0,65535]: negotiated_keep_alive = Server Keep Alive if present else the configured value; assemble_op::compute_read_timeout = exactly 1500*K ms (no int overflow in 3*K*1000/2), duration::max for K=0; ping_op::compute_wait_time = K s, max for K=0; update_session_state (run on every CONNACK) cancels the ping timer exactly once on every path, so the ping loop re-arms with the newly negotiated keep-alive. read_op arms the inactivity timer with exactly the wait it is given before the read/timer race starts; a timer that fires first abandons the connection to reconnect (never completes the read with a transport error). ping_op (every continuation): the ping timer is armed with exactly compute_wait_time() before it is awaited; an expired timer sends exactly one PINGREQ (encode_pingreq, unnumbered, unthrottled) and nothing re-arms until that write completes; after each PINGREQ (success or try_again) the timer is armed again with the then-current negotiated keep-alive; a cancelled timer (new keep-alive after a CONNACK) is re-armed without pinging; a closed client ends the loop. NOT decided: when timers fire, transport latency, the ping/read loops as schedules.",
   note="Opaque accessors (connack property storage, mqtt context) are ghost objects handed out by stubs with bodies; chrono durations are 64-bit tick counts with the unit conversions clang's AST shows.",
   design='5 C12')
CLAIMED['C10'] = dict(
   category='proof',
   text="FRAGMENT, proved on EVERY continuation of connect_op (emitted from connect_op<tcp::socket, noop_logger>; environment recorded by ghost counters): after the TCP connect the first and only packet written before a reply is one CONNECT built by encode_connect from exactly the context's client id, username, password, keep-alive, CONNECT properties and Will with Clean Start = false; with a configured authenticator nothing is written before its initial data is known and the CONNECT carries it; a cancelled operation completes with operation_aborted and writes nothing; a failed transport step is reported; after the CONNECT exactly the 5-byte fixed header is awaited in a buffer of at least 5 bytes; the handshake completes with success ONLY from a decodable CONNACK whose reason code is listed for CONNACK and equals 0 (or, with an authenticator, after its accepted final step); an undecodable CONNACK or a reason code not allowed in CONNACK -> malformed_packet, a refusal (>= 0x80) -> try_again, a failed read/write -> that error: in each case the stream is shut down and the operation completes with that non-success code (never success); AUTH packets are admitted only with a configured method, a listed AUTH reason code and the same method, and answered by one AUTH 0x18. exponential_backoff::generate returns 2^min(k,4)*1000 ms +-500 ms for its k-th call, hence always within [0.5 s, 16.5 s]; handshake framing (C19 unit). reconnect_op (every continuation): a handshake always races a timer armed for exactly 5 s before the race starts; a timed-out or failed handshake moves to the next resolved endpoint, else to the next broker, WITHOUT pause; a pause happens exactly when async_next_endpoint reports that the broker list wrapped around, and lasts the generated backoff; an unresolvable list completes with no_recovery; the new stream is swapped in exactly once, only after a successful handshake; resolve_op (endpoints): brokers are tried in list order (index + 1), resolution races a 5 s timer, a failed or timed-out resolution moves to the next broker, the end of the list is reported as try_again and restarts the list, representation invariant -1 <= _current_host < size preserved. NOT decided: 'no other packet before CONNACK' across the client (queued traffic gating is reconnect_op/async_sender ordering over schedules).",
   note="boost::random::uniform_smallint<>{-500,500} assumed to return a value in [-500,500]. control_packet::of(..., encode_connect, args) encodes the arguments it is given (encoder composition not verified, C17). cancellation_type values are symbolic distinct constants.",
   design='5 C10')
CLAIMED['C03'] = dict(
   category='proof',
   text="FRAGMENT, proved: control_packet::set_dup changes exactly bit 3 of the first wire byte (DUP), every other byte of the serialized packet and the stored packet identifier stay unchanged; packet_id() returns the stored identifier. NOT decided / not built yet: which continuation of publish_send_op applies set_dup and which packet handle is resent; cross-connection wire history.",
   note="The serialized packet owned through boost::allocate_unique is a ghost string handed out by a stub with a body.",
   design='5 C03')
CLAIMED['C13'] = dict(
   category='proof',
   text="FRAGMENT, proved: session_state setters/getters are bit-exact on the two flags (session_present = bit 0, subscriptions_present = bit 1, each setter changes only its bit). client_service::update_session_state (the only place the CONNACK outcome is applied, emitted from the mqtt_client<tcp::socket> instantiation): session_expired is stored to the receive channel exactly when the new session is fresh AND subscriptions existed, exactly once, with exactly that code; afterwards session_present is set and subscriptions_present cleared; a resumed session changes nothing; pending PUBREL waits are dropped iff the session was not resumed; the ping timer is restarted; connect_op::on_connack records the CONNACK's Session Present flag in bit 0 of the session state (only that bit changes) before the reason code is examined. Lemma over the CONTRACTS (bodies replaced): two consecutive fresh reconnects report the loss once, not twice. NOT decided: that update runs before the first message of the new session is stored (ordering across continuations of connect_op / reconnect_op), how session_present is derived from the CONNACK flags byte.",
   note="Trusted base of DESIGN 7. Opaque environment recorded by ghost counters (channel store, replies, timer).",
   design='5 C13')

CLAIMED['C01'] = dict(
   category='proof',
   text="FRAGMENT, proved on the continuations of publish_send_op (QoS 1 and 2, emitted from their template instantiations, environment recorded by ghost event counters): the wait for PUBACK/PUBREC/PUBCOMP is registered only after the write succeeded and for exactly (packet type, this packet id); a completion with success happens only after a decodable acknowledgement whose reason code to_reason_code admits, and the reason code handed to the handler is the decoded byte (QoS 2: only from on_pubcomp, or from on_pubrec with a code >= 0x80); an undecodable or inadmissible acknowledgement never completes successfully. NOT decided: that the broker received exactly the caller's bytes (transport, encoder composition), reply routing in replies::dispatch (where not built), stale replies across reconnects under arbitrary schedules.",
   note="Opaque environment (client_service, cancellable_handler, asio::prepend, decode_*) = stubs with recording bodies; assumed: Asio invokes each handler once; control_packet::of stores the id it is given.",
   design='5 C01')
CLAIMED['C05'] = dict(
   category='proof',
   text="FRAGMENT, proved: the LINEAR-CONTINUATION obligation on every continuation put under contract so far (publish_send_op QoS 0/1/2: on_publish, on_puback, on_pubrec, on_pubrel, on_pubcomp, perform): on every path exactly one of {the user handler is completed once, the operation object is moved into exactly one next asynchronous step}, never both, never two. Given Asio's 'each initiated operation invokes its handler exactly once' this excludes double completion and forking on these paths. NOT decided: the second sentence of the property (after cancel()/async_disconnect everything completes and the context runs out of work), re-entrancy, destruction, the other operation classes where not yet built.",
   note="Assumed: Asio handler-once; dispatch on the handler's executor is not re-entrant absent an immediate executor.",
   design='5 C05')
CLAIMED['C07'] = dict(
   category='proof',
   text="FRAGMENT, proved: every completion of a QoS 1/2 publish releases its packet identifier exactly once with was_throttled = true (complete), immediate rejections release it with was_throttled = false and never release id 0; PUBLISH is sent throttled, the first PUBREL prioritized and not throttled, a resent PUBREL prioritized and throttled. BOUNDED (queue of 2 quick / 5 thorough): async_sender::do_write never puts more throttled requests into a batch than the remaining quota and subtracts exactly their number (quota 0 sends only unthrottled ones, MAX_LIMIT = no limit); throttled_op_done returns one unit, never above the limit; NOT decided: pairing of consumption and release across asynchronous boundaries.",
   note="As C01.",
   design='5 C07')
CLAIMED['C15'] = dict(
   category='proof',
   text="FRAGMENT (the whole synchronous path of async_publish QoS 1), proved for EVERY combination of announced capabilities (opaque connack_property returns arbitrary optionals): a PUBLISH is handed to async_send only if QoS <= Maximum QoS (default 2), not (retain and Retain Available = 0), Topic Alias absent or 1 <= alias <= Topic Alias Maximum (alias == max accepted, max 0 rejects), size <= Maximum Packet Size (size == limit accepted); otherwise the request completes immediately with the documented code (qos_not_supported, retain_not_available, topic_alias_maximum_reached, packet_too_large, invalid_topic, pid_overrun), nothing is sent and the allocated identifier is released (free_pid(id,false)). subscribe_op: validate_topic returns exactly the documented code for every filter and every combination of Wildcard/Shared Subscription Available (a disabled shared subscription, a wildcard filter while wildcards are disabled, an invalid filter are refused; absent = available), validate_props admits a Subscription Identifier only if available and within 1..268435455, perform() sends only if every topic (BOUNDED list of 3 quick / 6 thorough) and the properties passed and the packet fits Maximum Packet Size, otherwise completes immediately with the code, sends nothing and releases the identifier; unsubscribe_op likewise (validation loops over opaque iterators closed by loop contracts). NOT built: disconnect path (oversized DISCONNECT drops its properties); NOT decided: which CONNACK is current at initiation.",
   note="Validators are uninterpreted functions of the string they are applied to (their correctness is C16's unit utf8). The user-property loop is closed by a loop contract (partial correctness).",
   design='5 C15')

CLAIMED['C09'] = dict(
   category='proof',
   text="FRAGMENT, proved on every continuation of disconnect_op and terminal_disconnect_op (emitted from the mqtt_client<tcp::socket> instantiation): perform() sends exactly one DISCONNECT built from the given reason code and properties, marked terminal and unnumbered, or -- properties invalid -- completes immediately with malformed_packet and sends nothing; an oversized DISCONNECT is rebuilt with the same reason code and no properties (C15) and that one is sent; after the write: aborted/no_recovery -> operation_aborted without shutdown; try_again -> a terminal DISCONNECT is resent (same packet, terminal), a non-terminal one completes with success and is not resent; anything else (even a failed write) -> the stream is shut down exactly once; after shutdown a terminal disconnect cancels the service exactly once and the handler completes once with the shutdown result; terminal_disconnect_op arms its timer with exactly 5 s BEFORE the race starts, runs one race (wait_for_one) of the disconnect against the timer, and calls the user handler exactly once with the disconnect's result. BOUNDED stand-in (send queue of at most 2 requests quick / 5 thorough, all flags, serials, handlers, limit and quota symbolic): async_sender::do_write -- if a queued request is marked terminal the write batch is exactly that (first) terminal request, written alone and ahead of every queued packet, the others stay queued and no quota is consumed; at most one gather-write is started and only when none is in progress. NOT decided: everything temporal (the 5 s bound as elapsed time, 'nothing follows it on that connection', 'no connection until async_run'), shutdown_op, client_service::cancel internals.",
   note="Bounded parts are labelled bounded in the evidence and never counted as proved. asio::experimental::make_parallel_group / wait_for_one / deferred are opaque (assumed: completes with the first finished operation and cancels the other); std::vector / find_if / remove_if / erase modelled in models/std.h; moved-from any_completion_handler is empty and moved-from vector is empty (assumed).",
   design='5 C09')

CLAIMED['C14'] = dict(
   category='proof',
   text="FRAGMENT, proved on subscribe_op AND unsubscribe_op (both emitted from their instantiations): the wait for SUBACK/UNSUBACK is registered only after the write succeeded and for (SUBACK|UNSUBACK, this packet id); a success completion happens only after a decodable acknowledgement that carried exactly one reason code per requested topic (count of the codes IN THE PACKET, defect D7 fixed) all of which are admitted; an undecodable acknowledgement, a wrong count or an inadmissible code is never surfaced as success (malformed-disconnect + resend, or operation_aborted when the caller cancelled); try_again resends the same request; the packet id is released exactly once per completion; linear continuation; perform() sends the request with the allocated id, unnumbered and unthrottled, and remembers the number of topics. BOUNDED (6 codes quick / 8 thorough): to_reason_codes returns the admitted codes in order -- same length iff every code is listed for the packet type, and then element-wise equal; complete() passes the codes on (or _num_topics empty codes) and records the first successful subscription. NOT decided: request contents on the wire (encoder composition), that the acknowledgement belongs to this request beyond (type, id).",
   note="Opaque environment recorded by ghost counters; decode_suback/decode_unsuback and the tuple accessors are stubs handing out ghost objects.",
   design='5 C14')

CLAIMED['C04'] = dict(
   category='proof',
   text="FRAGMENT, proved on every continuation of publish_rec_op (inbound PUBLISH): QoS bits 3 -> malformed DISCONNECT (0x81), nothing stored or sent; QoS 0 -> stored at once, no acknowledgement; QoS 1 -> PUBACK built by encode_puback with the same packet id, message stored only after that write succeeded; QoS 2 -> PUBREC with the same id, then a wait for (PUBREL, id); PUBCOMP (encode_pubcomp, same id) only after a decodable PUBREL with an admitted reason code, every such PUBREL is answered, otherwise malformed-disconnect and wait again; message stored only after the PUBCOMP write succeeded, try_again waits for the retransmitted PUBREL without storing (never PUBCOMP before PUBREL, QoS 2 stored once per exchange). BOUNDED (3 waiters quick / 5 thorough): replies::dispatch completes only the first waiter matching (code, id) with exactly the reply, stores an unmatched reply instead of delivering it; clear_pending_pubrels aborts exactly the PUBREL waiters once each and keeps the others. read_message_op: a packet the assembler reports malformed is answered by DISCONNECT 0x81 and not dispatched; a PUBLISH is decoded over exactly [first,last) with its control byte and either handed to publish_rec_op exactly once BEFORE the next packet is requested, or (undecodable) rejected with DISCONNECT 0x81 and never dispatched; no_recovery cancels the client. NOT decided: order of deliveries, at-least-once across drops, duplicate-waiter replacement in async_wait_reply (not built), channel capacity behaviour.",
   note="Assumed: decode_publish yields a packet id exactly for QoS > 0; control_packet::of stores the id it is given; Asio adapters (prepend/consign) do not modify their arguments.",
   design='5 C04')

CLAIMED['C11'] = dict(
   category='proof',
   text="FRAGMENT. PROVED on every continuation of reconnect_op (the only user of the connection lock for connecting): it asks for the lock first; a waiter whose wait was aborted (cancel()) completes with operation_aborted, never unlocks what it does not hold and never proceeds to connect; a waiter that obtains the lock after the stream was already replaced by another reconnect (stale trigger: s != _stream_ptr) releases the lock and reports try_again WITHOUT connecting; every other completion releases the lock exactly once and BEFORE the handler runs; the lock is held across host rotation, backoff and handshake, and the stream swap happens under it -- hence on these functions a connection attempt is started only by the holder of the lock. BOUNDED stand-in (waiting queue of at most 3 waiters quick / 6 thorough; each slot symbolic: live handler or emptied by per-operation cancellation): async_mutex -- lock() on a free mutex takes it and posts exactly one grant, on a held mutex appends the waiter at the back and grants nothing; unlock() hands the lock to the FIRST live waiter (arrival order, emptied slots skipped), keeps _locked set across the hand-over, preserves the order of the waiters behind it, and releases the lock only when no live waiter is left; cancel() aborts every live waiter exactly once with operation_aborted and grants nobody; a per-operation cancellation aborts that waiter exactly once, empties its slot and never grants. NOT decided: 'at most one attempt at any time' as a statement over interleavings (needs the mutual-exclusion argument over schedules; strand assumed), shutdown_op.",
   note="Bounded parts are labelled bounded and never counted as proved. std::deque modelled as vector; tracked handler type erased to a non-null handle; bound executors (asio::post/dispatch + prepend) are recording stubs.",
   design='5 C11')

NOT_APPLICABLE_OLD = {
 'C02': "liveness under fairness over unbounded fault sequences ('eventually completes once the broker stays reachable'): a function contract cannot state 'eventually', and there is no CBMC model of Boost.Asio scheduling; its function-local safety crumbs are carried under C03/C05 (DESIGN 5 C02)",
}
NOT_APPLICABLE = {}
CLAIMED['C02'] = dict(
   category='proof',
   text="SAFETY FRAGMENT only, proved per continuation: write_op and read_op never complete with a transport error -- a lost connection (connection_aborted, not_connected, timed_out, connection_reset, broken_pipe, eof, operation_aborted while open, or the read-inactivity timeout) triggers exactly one async_reconnect on the stream it happened on and, after it, the caller is told try_again, never success and never the transport error; completions are only success (with the byte count), operation_aborted (client closed) or no_recovery; every continuation of publish_send_op (QoS 1/2), subscribe_op and unsubscribe_op answers try_again by re-sending THE SAME packet (same packet identifier; DUP set for an unacknowledged QoS 1/2 PUBLISH) and never completes the user handler on it unless the caller cancelled; BOUNDED: async_sender::resend() re-queues everything unwritten in order; replies::resend_unanswered() completes every waiter with try_again exactly once; sentry_op checks every 3 s and answers an overdue reply (replies::any_expired) with DISCONNECT 0x80 to force a reconnect. NOT DECIDED (and not decidable by function contracts): the liveness statement itself -- 'eventually completes once the broker stays reachable' over unbounded fault sequences needs fairness of the Asio scheduler and of the network; no CBMC model of that exists here (DESIGN 5 C02).",
   note="Assumed: Asio invokes each handler exactly once; ec_t conflates error_code identity and value() (Windows codes 1236/121 compared numerically).",
   design='5 C02')
NOT_BUILT = "function-local contract fragment of DESIGN section 5 not built yet in this tree; the remainder of the property is schedule-quantified and outside per-function contracts"

def main():
    props = [json.loads(l)['id'] for l in open(os.path.join(VERIF, 'properties.jsonl'))]
    checks = []
    for pid in props:
        if pid in CLAIMED:
            c = CLAIMED[pid]
            checks.append(dict(property_id=pid, quick_cmd='./check %s --tier quick' % pid,
                               thorough_cmd='./check %s --tier thorough' % pid,
                               evidence_file='/verif/evidence/%s.json' % pid,
                               replay_cmd_template='./check %s --replay {path}' % pid,
                               engine='cxx2c+cbmc-contracts',
                               level_claimed=dict(category=c['category'], text=c['text'], design_ref=c['design']),
                               level_note=c['note'], technique=c.get('technique', TECH)))
    na = []
    for pid in props:
        if pid not in CLAIMED:
            na.append(dict(property_id=pid, reason=NOT_APPLICABLE.get(pid, NOT_BUILT)))
    m = dict(version=1,
             setup_cmd='sh tools/setup.sh',
             hooks=dict(guard='BOOST_MQTT5_VERIF', enable='no hooks: contracts are sidecars in /verif/contracts, extraction reads /repo/include as it is (clang++ -fsyntax-only -Xclang -ast-dump=json), replay drivers use -fno-access-control',
                        baseline_off_cmd='cmake --build /repo/_build -j16 && ctest --test-dir /repo/_build/test -j8 --timeout 900',
                        source_commits=[], add_only=True),
             engines=[dict(name='cxx2c+cbmc-contracts', path='/verif/tools', serves_properties=sorted(CLAIMED),
                           kind_free_text='contract-based deductive verification: clang JSON AST -> C emitter (tools/cxx2c.py) -> sidecar contracts (contracts/*.spec) -> goto-cc / goto-instrument --dfcc / cbmc --sat-solver cadical; native replay drivers under replay/')],
             checks=checks,
             not_applicable=na,
             notes='See DESIGN.md. Exit codes of ./check: 0 held, 1 VIOLATION, 2 UNDECIDED (extraction break, timeout, vacuity) - never reported as a violation.')
    json.dump(m, open(os.path.join(VERIF, 'MANIFEST.json'), 'w'), indent=1)
    print('MANIFEST.json: %d checks, %d not applicable' % (len(checks), len(na)))

if __name__ == '__main__':
    main()
