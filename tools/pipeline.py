"""From /repo's working tree to checked obligations (DESIGN 3.1)."""
import json
import os
import re
import shutil
import subprocess
import sys
import time
import glob
from concurrent.futures import ThreadPoolExecutor

HERE = os.path.dirname(os.path.abspath(__file__))
VERIF = os.path.dirname(HERE)
sys.path.insert(0, HERE)

import cxxast  # noqa
import cxx2c  # noqa
import libmodel  # noqa
import spec as specmod  # noqa

REPO = os.environ.get('VERIF_REPO', '/repo')
REPO_INC = os.path.join(REPO, 'include')
BUILD = os.environ.get('VERIF_BUILD', os.path.join(VERIF, 'build'))
CACHE = os.path.join(BUILD, 'astcache')

CBMC_CHECKS = ['--object-bits', '11', '--bounds-check', '--pointer-check', '--signed-overflow-check', '--div-by-zero-check',
               '--undefined-shift-check', '--pointer-overflow-check']


class Undecided(Exception):
    def __init__(self, reason, detail=''):
        Exception.__init__(self, reason + ': ' + detail)
        self.reason = reason
        self.detail = detail


def sh(cmd, timeout=None, mem_gb=12, cwd=None):
    """run with timeout and address-space cap; returns (rc, stdout, stderr, seconds)"""
    t0 = time.time()
    pre = 'ulimit -v %d; ' % (mem_gb * 1024 * 1024)
    full = pre + ' '.join(shquote(c) for c in cmd)
    try:
        r = subprocess.run(['bash', '-c', full], stdout=subprocess.PIPE, stderr=subprocess.PIPE, text=True,
                           timeout=timeout, cwd=cwd)
        return r.returncode, r.stdout, r.stderr, time.time() - t0
    except subprocess.TimeoutExpired as e:
        return 124, (e.stdout or b'').decode() if isinstance(e.stdout, bytes) else (e.stdout or ''), 'TIMEOUT', time.time() - t0


def shquote(s):
    if re.match(r'^[A-Za-z0-9_./:=+,@%-]+$', s):
        return s
    return "'" + s.replace("'", "'\\''") + "'"


# --------------------------------------------------------------------- emit
class UnitBuild:
    pass


class LineList(list):
    '''list of single lines (multi-line items are split on append)'''
    def append(self, x):
        for l in str(x).split('\n'):
            list.append(self, l)

    def __iadd__(self, xs):
        for x in xs:
            self.append(x)
        return self


def emit_unit(uspec, log=None):
    """AST dump + emission + contract merge -> C file.  Returns UnitBuild."""
    ub = UnitBuild()
    ub.spec = uspec
    inst = os.path.join(VERIF, uspec.inst)
    t0 = time.time()
    try:
        extra = [f.replace('$REPO', REPO) for f in getattr(uspec, 'inst_flags', [])]
        ast, cmd = cxxast.dump_ast(inst, uspec.filter, REPO_INC, CACHE, extra=extra)
    except RuntimeError as e:
        raise Undecided('extraction-break', str(e)[-1500:])
    ub.ast_cmd = ' '.join(cmd)
    ub.ast_s = time.time() - t0
    lib = libmodel.Lib()
    em = cxx2c.Emitter(ast, lib, aliases=uspec.aliases, opaque_ok=uspec.opaque_ok)
    em.spec = uspec
    em.stub_aliases = uspec.stub_aliases
    em.inline_only = uspec.inline_only
    lib.em = em
    try:
        for ent in uspec.emit:
            qname, rx = ent[0], ent[1]
            fns = ast.find_functions(qname)
            if not fns:
                for q2, fl in ast.functions.items():
                    if strip_targs(q2) == qname:
                        fns = fns + fl
            if not fns and uspec.aliases:
                for q2, fl in ast.functions.items():
                    qa = q2
                    for pat, rep in uspec.aliases:
                        qa = re.sub(pat, rep, qa)
                    if qa == qname:
                        fns = fns + fl
            fns = [f for f in fns if not f.get('_pattern')]
            if not fns:
                raise Undecided('extraction-break', 'no definition of %s in the AST (renamed or removed?)' % qname)
            hit = 0
            for f in fns:
                c = em.fn_cname(f)
                if rx and rx.startswith('sig:'):
                    # select an overload / instantiation by its parameter types (stable under reordering of
                    # instantiations); `sig:qname:<regex>` matches the qualified name with its template arguments instead
                    if rx.startswith('sig:qname:'):
                        if not re.search(rx[10:], f.get('_qname') or ''):
                            continue
                    else:
                        sig = ', '.join(cxxast.qt(p) for p in cxxast.params_of(f))
                        if not re.search(rx[4:], sig):
                            continue
                    em.__dict__.setdefault('sig_selected', {}).setdefault(rx, set()).add(c)
                elif rx and not re.search(rx, c):
                    continue
                em.want(f)
                hit += 1
            if not hit:
                raise Undecided('extraction-break', 'no instantiation of %s matches %s (have: %s)' % (
                    qname, rx, ', '.join(em.fn_cname(f) for f in fns)))
        em.run()
        merge_instantiations(em, uspec)
    except cxx2c.Unsupported as e:
        raise Undecided('extraction-break', 'cxx2c: ' + str(e))
    ub.em = em
    ub.lib = lib
    assemble(ub)
    return ub


def strip_targs(q):
    out, depth = '', 0
    for ch in q:
        if ch == '<':
            depth += 1
        elif ch == '>':
            depth -= 1
        elif depth == 0:
            out += ch
    return out


def merge_instantiations(em, uspec):
    """Instantiations of one template that emit byte-identical C (modulo their
    own name and the names of callees that were themselves merged) are verified
    once; `emit Q RX as NAME` gives the representative(s) the short name NAME
    (NAME__v2, ... for further distinct texts).  Iterated to a fixed point."""
    em.merged = {}
    count = {c: 1 for c in em.fn_order}

    def apply(rename):
        names = sorted(rename, key=len, reverse=True)
        rx = re.compile(r'\b(' + '|'.join(re.escape(n) for n in names) + r')\b')

        def sub(txt):
            return rx.sub(lambda m: rename[m.group(1)], txt)
        new_text, new_proto, new_meta, new_decl, new_order = {}, {}, {}, {}, []
        for c in em.fn_order:
            nc = rename.get(c, c)
            if nc in new_text:
                continue
            new_order.append(nc)
            new_text[nc] = sub(em.fn_text[c])
            new_proto[nc] = sub(em.fn_proto[c])
            new_meta[nc] = em.fn_meta[c]
            new_decl[nc] = em.fn_decl[c]
        em.fn_order, em.fn_text, em.fn_proto, em.fn_meta, em.fn_decl = new_order, new_text, new_proto, new_meta, new_decl
        em.global_init = [sub(x) for x in em.global_init]
        em.lambda_ops = {sub(k): [sub(x) for x in v] for k, v in em.lambda_ops.items()}
        if em.lib:
            for n in em.lib.gen_order:
                em.lib.gen[n] = sub(em.lib.gen[n])

    for _round in range(12):
        groups = {}
        for c in em.fn_order:
            q = strip_targs(em.fn_meta[c]['qname'])
            t = re.sub(r'\b%s\b' % re.escape(c), '@SELF@', em.fn_text[c])
            t = t[t.index('\n') + 1:]
            groups.setdefault((q, t), []).append(c)
        rename = {}
        for (q, t), cs in groups.items():
            if len(cs) > 1:
                for c in cs[1:]:
                    rename[c] = cs[0]
                    count[cs[0]] = count.get(cs[0], 1) + count.get(c, 1)
        if not rename:
            break
        apply(rename)
    # short names
    rename = {}
    byq = {}
    def aliased(q):
        for pat, rep in uspec.aliases:
            q = re.sub(pat, rep, q)
        return q
    for c in em.fn_order:
        byq.setdefault(strip_targs(em.fn_meta[c]['qname']), []).append(c)
        aq = aliased(em.fn_meta[c]['qname'])
        if aq != em.fn_meta[c]['qname'] and c not in byq.setdefault(aq, []):
            byq[aq].append(c)
    for e in uspec.emit:
        if len(e) > 2 and e[2]:
            k = 0
            for c in (byq.get(e[0]) or byq.get(strip_targs(e[0]), [])):
                if e[1] and e[1].startswith('sig:'):
                    if c not in getattr(em, 'sig_selected', {}).get(e[1], ()):
                        continue
                elif e[1] and not re.search(e[1], c):
                    continue
                k += 1
                nm = e[2]
                if '{' in nm and e[1]:
                    mm = re.search(e[1], c)
                    for gi in range(1, (mm.re.groups if mm else 0) + 1):
                        nm = nm.replace('{%d}' % gi, mm.group(gi) or '')
                    rename[c] = nm if nm not in rename.values() else '%s__v%d' % (nm, k)
                else:
                    rename[c] = nm if k == 1 else '%s__v%d' % (nm, k)
    if rename:
        for c, n in rename.items():
            count[n] = count.get(c, 1)
        apply(rename)
    em.merged = {c: count.get(c, 1) for c in em.fn_order if count.get(c, 1) > 1}


def contract_text(fs, labels, lineno_base):
    """contract clauses; the ghost-* clauses (definitional unfoldings of
    prophecy ghosts) are present only in builds where the function is REPLACED
    by its contract (-DVERIF_REPLACING_<name>), never where it is enforced"""
    out = []
    for r in fs.requires:
        out.append('__CPROVER_requires(%s)' % r)
    for idx, (lab, e) in enumerate(fs.ensures):
        if fs.split > 1:
            # `split K`: the postconditions are discharged in K separate builds (in
            # parallel); a build with VERIF_ENS_GROUP == g carries every K-th clause
            out.append('#if !defined(VERIF_ENS_GROUP_%s) || VERIF_ENS_GROUP_%s == %d' % (fs.name, fs.name, idx % fs.split))
        labels.append((lineno_base + len(out), lab))
        out.append('__CPROVER_ensures(%s)' % e)
        if fs.split > 1:
            out.append('#endif')
    tg = [a for a in fs.assigns if a.strip() and a.strip() != 'nothing']
    if fs.enforce_requires:
        # assumptions about GHOST state made only where the contract is enforced
        # (e.g. the dereference window equals the function's own range): ghosts do
        # not influence the emitted code, so what is proved about its real
        # accesses under them holds at every call site
        out.append('#ifndef VERIF_REPLACING_%s' % fs.name)
        for r in fs.enforce_requires:
            out.append('__CPROVER_requires(%s)' % r)
        out.append('#endif')
    if fs.ghost_requires or fs.ghost_ensures or fs.ghost_assigns:
        out.append('#ifdef VERIF_REPLACING_%s' % fs.name)
        for r in fs.ghost_requires:
            out.append('__CPROVER_requires(%s)' % r)
        for lab, e in fs.ghost_ensures:
            out.append('__CPROVER_ensures(%s)' % e)
        out.append('__CPROVER_assigns(%s)' % ', '.join(tg + fs.ghost_assigns))
        out.append('#else')
        out.append('__CPROVER_assigns(%s)' % ', '.join(tg))
        out.append('#endif')
    elif fs.assigns or fs.requires or fs.ensures:
        out.append('__CPROVER_assigns(%s)' % ', '.join(tg))
    return out


def bind_param_names(em, us):
    """`params a b -`: the contract of a function refers to its parameters by these names; a parameter the
    source leaves unnamed (or renames) is renamed in the emitted text, so that such an edit fails an obligation
    instead of breaking the binding of the sidecar"""
    for fs in us.order:
        if not getattr(fs, 'params', None) or fs.name not in em.fn_proto:
            continue
        proto = em.fn_proto[fs.name]
        m = re.match(r'^(.*?)\b%s\((.*)\);$' % re.escape(fs.name), proto)
        if not m or m.group(2).strip() == 'void':
            continue
        names = []
        for a in cxx2c.split_top(m.group(2)):
            mm = re.match(r'^(.*?)(\w+)(\[\d*\])?$', a.strip())
            names.append(mm.group(2))
        off = 1 if names and names[0] == 'self' else 0
        for i, want in enumerate(fs.params):
            if want == '-' or off + i >= len(names):
                continue
            have = names[off + i]
            if have == want:
                continue
            if re.search(r'\b%s\b' % re.escape(want), em.fn_text[fs.name]):
                continue    # the wanted name is used for something else: leave the binding to fail visibly
            rx = re.compile(r'\b%s\b' % re.escape(have))
            em.fn_text[fs.name] = rx.sub(want, em.fn_text[fs.name])
            em.fn_proto[fs.name] = rx.sub(want, em.fn_proto[fs.name])


def assemble(ub):
    em, lib, us = ub.em, ub.lib, ub.spec
    bind_param_names(em, us)
    L = LineList()
    L.append('/* generated by cxx2c from %s -- do not edit */' % REPO)
    L.append('#include "models/std.h"')
    # types in completion order
    type_macros = [n for n in lib.gen_order if lib.gen[n].startswith(('DEF_OPT', 'DEF_PAIR', 'DEF_VEC', 'DEF_TUPLE'))]
    fn_macros = [n for n in lib.gen_order if n not in type_macros]
    emitted = set()

    def emit_type(n):
        if n in emitted:
            return
        emitted.add(n)
        if n in em.struct_defs:
            txt = em.struct_defs[n]
        else:
            txt = lib.gen[n]
        # dependencies: any other known type name mentioned
        for other in list(em.struct_order) + type_macros:
            if other != n and re.search(r'\b%s\b' % re.escape(other), txt):
                emit_type(other)
        L.append(txt)
    for n in em.struct_order:
        L.append('struct %s;' % n)
    for n in list(em.struct_order) + type_macros:
        emit_type(n)
    for inc in us.includes:
        L.append('#include "%s"' % inc)
    # symbolic constants named by the sidecar but no longer (or not) referenced by the emitted code still
    # get a distinct value: a change that drops the last use of an error code must fail an obligation,
    # not break the binding
    spec_text = open(us.path).read()
    ecs = list(em.ec_consts)
    for tok in re.findall(r'\bEC_[A-Za-z0-9_]+\b', spec_text):
        if tok != 'EC_OK' and tok not in ecs:
            ecs.append(tok)
    if ecs:
        L.append('enum { EC_OK = 0, %s };' % ', '.join('%s = %d' % (n, i + 1) for i, n in enumerate(ecs)))
    else:
        L.append('enum { EC_OK = 0 };')
    libs = list(em.lib_enums)
    for tok in re.findall(r'(?<![A-Za-z0-9_])(?:LIBENUM|FNID)_[A-Za-z0-9_]+\b', spec_text):
        if tok not in libs:
            libs.append(tok)
    if libs:
        L.append('enum { %s };' % ', '.join('%s = %d' % (n, 1000 + i) for i, n in enumerate(libs)))
    L.append('char *g_buf; unsigned long g_n; long g_lo, g_hi; const char *svlit_tab[32]; long g_ffo_j;')
    L.append('#ifndef VERIF_CBMC')
    L.append('unsigned long model_pre_failures;')
    L.append('#endif')
    for g, txt in em.globals.items():
        L.append(txt)
    for c in em.fn_order:
        L.append(em.fn_proto[c])
    L.append('void __cxx_global_init(void);')
    # ghost event counters (DESIGN 4.4): every call of an opaque callee is counted
    # and its scalar arguments are remembered; std::move(*this) is counted too
    L.append('unsigned g_moved_self;')
    cnts, allg = ['g_moved_self'], ['g_moved_self']
    for sname, (ret, atys) in em.stubs.items():
        if not us.counters:
            if ret.strip().endswith('*') and not (sname in us.functions and us.functions[sname].assume_only):
                L.append('extern %s g_sink_%s;' % (ret.strip()[:-1].strip(), sname[6:]))
            continue
        L.append('unsigned g_cnt_%s;' % sname[6:])
        cnts.append('g_cnt_%s' % sname[6:])
        allg.append('g_cnt_%s' % sname[6:])
        if ret.strip().endswith('*') and not (sname in us.functions and us.functions[sname].assume_only):
            # never written: an object with arbitrary contents (extern without definition)
            L.append('extern %s g_sink_%s;' % (ret.strip()[:-1].strip(), sname[6:]))
        for i, t in enumerate(atys):
            tt = t.replace('/*in*/', '').strip()
            if tt in ('int', 'unsigned int', 'unsigned char', 'unsigned short', 'short', 'long', 'unsigned long', '_Bool', 'ec_t', 'it_t', 'char', 'opq_t'):
                L.append('%s g_arg_%s_%d;' % (tt, sname[6:], i))
                allg.append('g_arg_%s_%d' % (sname[6:], i))
    L.append('#define VERIF_COUNTERS_ZERO (%s)' % ' && '.join('%s == 0' % c for c in cnts))
    L.append('#define VERIF_COUNTERS %s' % ', '.join(allg))
    # stubs (class 3): an assumed contract from the sidecar, else an
    # over-approximating body (nondeterministic result, every by-address
    # argument havocked)
    ub.assumed = []
    # assume-contract blocks whose name is a regex (~...) apply to every matching stub
    for fs0 in list(us.order):
        if fs0.assume_only and fs0.name.startswith('~'):
            rx = fs0.name[1:]
            us.order.remove(fs0)
            us.functions.pop(fs0.name, None)
            for sname in em.stubs:
                if re.search(rx, sname) and sname not in us.functions:
                    g = specmod.subst_fn(fs0, '__none__', '')
                    g.name = sname
                    us.order.append(g)
                    us.functions[sname] = g
    for sname, (ret, atys) in em.stubs.items():
        fs = us.functions.get(sname)
        params = ', '.join('%s a%d' % (t, i) for i, t in enumerate(atys)) or 'void'
        if fs is not None and fs.assume_only:
            continue
        L.append('%s %s(%s) {' % (ret, sname, params))
        if us.counters:
            L.append('  g_cnt_%s++;' % sname[6:])
        for i, t in enumerate(atys if us.counters else []):
            tt = t.replace('/*in*/', '').strip()
            if tt in ('int', 'unsigned int', 'unsigned char', 'unsigned short', 'short', 'long', 'unsigned long', '_Bool', 'ec_t', 'it_t', 'char', 'opq_t'):
                L.append('  g_arg_%s_%d = a%d;' % (sname[6:], i, i))
        policy = None
        for rx, pol in us.callable_policy:
            if re.search(rx, sname):
                policy = pol
        for i, t in enumerate(atys):
            if t.startswith('struct lam__') and t.endswith('*'):
                ops = em.lambda_ops.get(t[len('struct '):-1].strip(), [])
                if policy == 'at-most-once' and ops:
                    # the callee may invoke the callable at most once, with an arbitrary argument
                    L.append('  { _Bool call; int which; if (call) {')
                    for j, op in enumerate(ops):
                        pr = em.fn_proto.get(op, '')
                        m = re.match(r'^.*?\((.*)\);$', pr)
                        ps = cxx2c.split_top(m.group(1))[1:] if m else []
                        decls, argl = [], ['a%d' % i]
                        for q, pdecl in enumerate(ps):
                            mm = re.match(r'^(.*?)(\*?)\s*(\w+)$', pdecl.strip())
                            base, star = mm.group(1).strip(), mm.group(2)
                            if star:
                                decls.append('%s v%d;' % (base, q))
                                argl.append('&v%d' % q)
                            else:
                                decls.append('%s v%d;' % (base, q))
                                argl.append('v%d' % q)
                        L.append('    %sif (which == %d) { %s %s(%s); }' % ('' if j == 0 else 'else ', j, ' '.join(decls), op, ', '.join(argl)))
                    L.append('  } }')
                continue
            if t.endswith('*') and t.strip() != 'void *' and not t.startswith('opq_t'):
                L.append('  { %s nd%d; *a%d = nd%d; }' % (t[:-1].strip(), i, i, i))
        if ret.strip() != 'void':
            if ret.strip().endswith('*'):
                # reference result: a ghost object of that type (listed in VERIF_COUNTERS)
                L.append('  return &g_sink_%s;' % sname[6:])
            else:
                L.append('  %s r; return r;' % ret)
        L.append('}')
    for nm, txt in em.extra_fns.items():
        L.append(txt)
    for n in fn_macros:
        L.append(lib.gen[n])
    for p in us.prelude:
        L.append(p)
    # assumed contracts on stubs / models declared in the spec
    ub.fn_index = {f.name: i + 1 for i, f in enumerate(us.order)}
    for f in us.order:
        L.append('#define VERIF_FNID_%s %d' % (f.name, ub.fn_index[f.name]))
    ub.labels = {}     # cname -> [(line, label)]
    ub.fn_lines = {}   # cname -> (first,last) line in generated file
    for fs in us.order:
        if fs.assume_only:
            labels = []
            L.append('/* assumed contract (trusted, never enforced) */')
            sig = fs.signature
            if not sig:
                if fs.name in em.stubs:
                    ret, atys = em.stubs[fs.name]
                    sig = '%s %s(%s)' % (ret, fs.name, ', '.join('%s a%d' % (t, i) for i, t in enumerate(atys)) or 'void')
                elif getattr(fs, 'optional', False) or fs.body is not None:
                    # a recording body for a stub this tree does not reach (any more) is simply not needed
                    # the stub is not reached in this tree: its event counter exists and stays 0
                    if us.counters and fs.name.startswith('stub__'):
                        L.append('unsigned g_cnt_%s;' % fs.name[len('stub__'):])
                    continue
                else:
                    raise Undecided('sidecar-binding-broken', 'assume-contract %s: no such stub is reached and no signature given' % fs.name)
            L.append(sig)
            ub.assumed.append(fs.name)
            L += contract_text(fs, labels, len(L) + 1)
            L.append(';' if fs.body is None else '{' + fs.body + '}')
    for c in em.fn_order:
        txt = em.fn_text[c]
        # call-site ordinals: an expression the emitter evaluated twice (once to type it) leaves a gap in
        # the ordinals of the surviving call sites; close the gaps per callee so that ordinals are 0..n-1
        seen = {}
        for mm in re.finditer(r'/\*@CALL (\S+) (\S+) (\d+)@\*/', txt):
            seen.setdefault(mm.group(2), set()).add(int(mm.group(3)))
        remap = {cal: {k: i for i, k in enumerate(sorted(ks))} for cal, ks in seen.items()}
        txt = re.sub(r'/\*@CALL (\S+) (\S+) (\d+)@\*/',
                     lambda mm: '/*@CALL %s %s %d@*/' % (mm.group(1), mm.group(2), remap[mm.group(2)][int(mm.group(3))]), txt)
        fs = us.functions.get(c)
        first = len(L) + 1
        out = LineList()
        for line in txt.split('\n'):
            m = re.search(r'/\*@CONTRACT (\S+)@\*/', line)
            if m:
                if fs:
                    labels = []
                    cl = contract_text(fs, labels, len(L) + len(out) + 1)
                    ub.labels[c] = labels
                    out += cl
                continue
            m = re.search(r'/\*@ENTRY (\S+)@\*/', line)
            if m:
                if fs:
                    for e in fs.entry:
                        out.append(e)
                continue
            m = re.search(r'/\*@LOOP (\S+) (\d+)@\*/', line)
            if m:
                k = int(m.group(2))
                if fs and k in fs.loops:
                    lc = fs.loops[k]
                    if lc['assigns']:
                        out.append('__CPROVER_assigns(%s)' % ', '.join(lc['assigns']))
                    for inv in lc['invariant']:
                        out.append('__CPROVER_loop_invariant(%s)' % inv)
                    if lc['decreases']:
                        out.append('__CPROVER_decreases(%s)' % lc['decreases'])
                continue
            m = re.search(r'/\*@LOOPHEAD (\S+) (\d+)@\*/', line)
            if m:
                k = int(m.group(2))
                if fs and k in fs.loops:
                    for h in fs.loops[k]['head']:
                        out.append(h)
                continue
            line = re.sub(r'/\*@RETURN (\S+) (\d+)@\*/', lambda mm: ('{VERIF_COVER_IN(%s, %s);}' % (c, mm.group(2))) if fs else '', line)

            def callsub(mm):
                if fs:
                    t = fs.before_call.get((mm.group(2), int(mm.group(3))))
                    if t:
                        return '%s, ' % t.strip()
                return ''
            line = re.sub(r'/\*@CALL (\S+) (\S+) (\d+)@\*/', callsub, line)
            out.append(line)
        L += out
        ub.fn_lines[c] = (first, len(L))
    L.append('void __cxx_global_init(void) {')
    L += ['  ' + x for x in em.global_init]
    L.append('}')
    for p in us.postlude:
        L.append(p)
    # harnesses
    for fs in us.order:
        if fs.assume_only:
            continue
        L.append('void h_%s(void) {' % fs.name)
        L.append('  __cxx_global_init();')
        if fs.harness is not None:
            L.append(fs.harness)
        else:
            proto = em.fn_proto.get(fs.name)
            if proto is None:
                raise Undecided('sidecar-binding-broken', 'function %s named in %s is not emitted (have: %s)' % (
                    fs.name, us.path, ', '.join(em.fn_order)))
            m = re.match(r'^(.*?)\b%s\((.*)\);$' % re.escape(fs.name), proto)
            args = m.group(2)
            names = []
            if args.strip() != 'void':
                for k, a in enumerate(cxx2c.split_top(args)):
                    mm = re.match(r'^(.*?)(\w+)(\[\d*\])?$', a.strip())
                    L.append('  %s;' % a.strip())
                    names.append(mm.group(2))
            L.append('  %s(%s);' % (fs.name, ', '.join(names)))
        L.append('  VERIF_COVER(end);')
        L.append('}')
    ub.ctext = '\n'.join(L) + '\n'
    d = os.path.join(BUILD, us.name)
    os.makedirs(d, exist_ok=True)
    ub.dir = d
    ub.cfile = os.path.join(d, us.name + '.c')
    open(ub.cfile, 'w').write(ub.ctext)


# --------------------------------------------------------------------- cbmc
def parse_cbmc_json(out):
    try:
        j = json.loads(out)
    except Exception:
        # find the last complete JSON array
        i = out.find('[')
        j = json.loads(out[i:])
    res, goals, msgs, trace = None, None, [], {}
    for item in j:
        if 'result' in item:
            res = item['result']
        if 'goals' in item:
            goals = item
        if 'messageText' in item:
            msgs.append(item['messageText'])
        if 'cProverStatus' in item:
            msgs.append('status: ' + item['cProverStatus'])
    return res, goals, msgs


def tier_bound(u, tier):
    """loop:Q/T -> loop:Q in quick, loop:T in thorough"""
    name, _, b = u.rpartition(':')
    if '/' in b:
        q, t = b.split('/')
        b = t if tier == 'thorough' else q
    return name + ':' + b


def run_function(ub, fs, tier='quick', solver=None, extra_defs=()):
    if fs.split > 1 and not any(x.startswith('VERIF_ENS_GROUP_') for x in extra_defs):
        return run_split(ub, fs, tier, solver, extra_defs)
    return run_function1(ub, fs, tier, solver, extra_defs)


def run_split(ub, fs, tier, solver, extra_defs):
    from concurrent.futures import ThreadPoolExecutor as TPE
    groups = list(range(min(fs.split, max(1, len(fs.ensures)))))
    with TPE(max_workers=len(groups)) as ex:
        rs = list(ex.map(lambda g: run_function1(ub, fs, tier, solver, tuple(extra_defs) + ('VERIF_ENS_GROUP_%s=%d' % (fs.name, g),), vacuity=(g == 0)), groups))
    R = rs[0]
    seen = set((o['id'], o['line']) for o in R['obligations'])
    for r in rs[1:]:
        for o in r['obligations']:
            # postconditions are numbered per build: identify them by their source line
            key = (o['id'] if '.postcondition.' not in o['id'] else 'post', o['line'], o['description'])
            if '.postcondition.' in o['id']:
                o = dict(o, id='%s.g%s' % (o['id'], r['group']))
                R['obligations'].append(o)
            elif o['status'] != 'SUCCESS' and (o['id'], o['line']) not in seen:
                R['obligations'].append(o)
        for k, v in r['seconds'].items():
            R['seconds'][k] = max(R['seconds'].get(k, 0), v)
        R['cmds'] += r['cmds'][-1:]
    return R


def run_function1(ub, fs, tier='quick', solver=None, extra_defs=(), vacuity=True):
    """goto-cc, unwind, dfcc, cbmc for one function under contract."""
    us = ub.spec
    d = ub.dir
    tag = fs.name + ('.' + solver if solver else '') + (''.join('.' + x.replace('=', '_') for x in extra_defs))
    gb0 = os.path.join(d, tag + '.0.gb')
    gb1 = os.path.join(d, tag + '.1.gb')
    gb2 = os.path.join(d, tag + '.2.gb')
    R = dict(function=fs.name, unit=us.name, cmds=[], obligations=[], seconds={}, status='ok', covers=None,
             bounded=fs.bounded, property=fs.property, group=next((x.split('=')[1] for x in extra_defs if x.startswith('VERIF_ENS_GROUP_')), None))
    harness = 'h_' + fs.name
    repl_defs = ['-DVERIF_REPLACING_%s' % g for g in fs.replace] + ['-D' + x for x in fs.defines] + (['-DVERIF_TIER_THOROUGH'] if tier == 'thorough' else [])
    cmd = ['goto-cc', '-DVERIF_CBMC', '-I' + VERIF] + ['-D' + x for x in extra_defs] + repl_defs + us.cflags + ['--function', harness, ub.cfile, '-o', gb0]
    rc, so, se, t = sh(cmd, timeout=120)
    R['cmds'].append(' '.join(cmd))
    R['seconds']['goto-cc'] = t
    if rc != 0:
        raise Undecided('sidecar-binding-broken', 'goto-cc failed for %s:\n%s' % (fs.name, (so + se)[-3000:]))
    cur = gb0
    uw = [tier_bound(u, tier) for u, _ in fs.unwind]
    if fs.unwind_all:
        # every loop of the program that has no loop contract in the sidecar gets the stated bound
        rc, so, se, t = sh(['goto-instrument', '--show-loops', gb0], timeout=120)
        have = set(u.rpartition(':')[0] for u in uw)
        b = tier_bound('x:' + fs.unwind_all[0], tier).rpartition(':')[2]
        for m in re.finditer(r'^Loop (\S+?):', so, re.M):
            lid = m.group(1)
            fn, _, k = lid.rpartition('.')
            f2 = us.functions.get(fn)
            if f2 is not None and int(k) in f2.loops:
                continue
            if lid not in have:
                uw.append('%s:%s' % (lid, b))
    if uw:
        cmd = ['goto-instrument', '--unwindset', ','.join(uw), '--unwinding-assertions', cur, gb1]
        rc, so, se, t = sh(cmd, timeout=300)
        R['cmds'].append(' '.join(cmd))
        R['seconds']['unwind'] = t
        if rc != 0:
            raise Undecided('solver-error', 'goto-instrument --unwindset failed for %s:\n%s' % (fs.name, (so + se)[-2000:]))
        cur = gb1
    cmd = ['goto-instrument', '--dfcc', harness]
    if fs.check:
        cmd += ['--enforce-contract', fs.name]
    for g in fs.replace:
        cmd += ['--replace-call-with-contract', g]
    for g in ub.assumed:
        if g not in fs.replace and us.functions[g].body is None:
            cmd += ['--replace-call-with-contract', g]
    cmd += ['--apply-loop-contracts', cur, gb2]
    rc, so, se, t = sh(cmd, timeout=600)
    R['cmds'].append(' '.join(cmd))
    R['seconds']['goto-instrument'] = t
    if rc != 0:
        raise Undecided('sidecar-binding-broken', 'goto-instrument --dfcc failed for %s:\n%s' % (fs.name, (so + se)[-3000:]))
    slv = solver or fs.solver or 'cadical'
    if slv == 'cadical':
        sflags = ['--sat-solver', 'cadical']
    elif slv == 'cvc5':
        sflags = ['--cvc5']
    elif slv == 'kissat':
        sflags = ['--external-sat-solver', 'kissat']
    else:
        sflags = ['--sat-solver', slv]
    to = (fs.timeout if tier == 'quick' else max(fs.timeout, 3000)) if fs.timeout else (900 if tier == 'quick' else 3000)
    cmd = ['cbmc'] + sflags + CBMC_CHECKS + fs.flags + ['--json-ui', gb2]
    rc, so, se, t = sh(cmd, timeout=to)
    R['cmds'].append(' '.join(cmd))
    R['seconds'][slv] = t
    R['backend'] = slv
    if rc == 124:
        raise Undecided('timeout', '%s: cbmc (%s) exceeded %ds' % (fs.name, slv, to))

    def _crashed(out):
        try:
            r_, _, _ = parse_cbmc_json(out)
            return r_ is None
        except Exception:
            return True
    if _crashed(so) and slv != 'cadical':
        # the external / SMT back end died without a result (seen once with kissat under memory pressure):
        # one retry with the built-in SAT back end; the back end actually used is recorded
        cmd = ['cbmc', '--sat-solver', 'cadical'] + CBMC_CHECKS + fs.flags + ['--json-ui', gb2]
        rc, so, se, t = sh(cmd, timeout=to)
        R['cmds'].append(' '.join(cmd))
        R['seconds']['cadical(retry after %s crashed)' % slv] = t
        R['backend_note'] = 'primary back end %s died without a result; obligations decided by cadical' % slv
        if rc == 124:
            raise Undecided('timeout', '%s: cbmc (cadical retry after %s crashed) exceeded %ds' % (fs.name, slv, to))
    try:
        res, _, msgs = parse_cbmc_json(so)
    except Exception as e:
        raise Undecided('solver-error', '%s: unparsable cbmc output: %s\n%s' % (fs.name, e, (so + se)[-2000:]))
    if res is None:
        raise Undecided('solver-error', '%s: cbmc gave no result (rc=%d): %s' % (fs.name, rc, ' | '.join(msgs)[-2000:]))
    # UNKNOWN next to a FAILURE is cbmc's assert-then-assume (points behind a failed assertion);
    # ERROR, or UNKNOWN without any FAILURE (out of memory, solver error), decides nothing
    anyfail = any(r.get('status') == 'FAILURE' for r in res)
    bad = [r for r in res if r.get('status') not in ('SUCCESS', 'FAILURE') and not (anyfail and r.get('status') == 'UNKNOWN')]
    if bad or rc not in (0, 10):
        # out of memory / solver error: statuses ERROR or UNKNOWN decide nothing
        raise Undecided('solver-error', '%s: cbmc (%s) rc=%d, %d obligations without a verdict: %s' % (
            fs.name, slv, rc, len(bad), ' | '.join(m for m in msgs if m)[-600:]))
    labels = dict(ub.labels.get(fs.name, []))
    for r in res:
        loc = r.get('sourceLocation', {})
        name = r.get('property')
        line = int(loc.get('line', 0) or 0)
        label = None
        if '.postcondition.' in name and line in labels:
            label = labels[line]
        ob = dict(id=name, label=label, description=r.get('description'), status=r.get('status'),
                  line=line, function=loc.get('function'), file=loc.get('file'))
        R['obligations'].append(ob)
    for m in msgs:
        if 'ignoring' in m:
            raise Undecided('solver-error', '%s: back end ignored a quantifier: %s' % (fs.name, m))
    R['raw_tail'] = so[-1500:] if any(o['status'] != 'SUCCESS' for o in R['obligations']) else ''
    R['gb'] = gb2
    # vacuity: second build in which every return of the function under
    # contract and the harness end carry assert(0): each must FAIL (= reachable
    # under the same preconditions / loop abstractions / callee contracts)
    if fs.covers and vacuity and not [x for x in extra_defs if not x.startswith('VERIF_ENS_GROUP_')] and not (fs.cover_thorough_only and tier != 'thorough'):
        gbv0 = os.path.join(d, tag + '.v0.gb')
        gbv1 = os.path.join(d, tag + '.v1.gb')
        gbv2 = os.path.join(d, tag + '.v2.gb')
        cmd = ['goto-cc', '-DVERIF_CBMC', '-DVERIF_VACUITY', '-DVERIF_VACUITY_FN=%d' % ub.fn_index[fs.name], '-I' + VERIF] + repl_defs + us.cflags + ['--function', harness, ub.cfile, '-o', gbv0]
        rc, so, se, t = sh(cmd, timeout=120)
        curv = gbv0
        if rc == 0 and uw:
            rc, so, se, t = sh(['goto-instrument', '--unwindset', ','.join(uw), '--unwinding-assertions', curv, gbv1], timeout=300)
            curv = gbv1
        if rc == 0:
            cmd = ['goto-instrument', '--dfcc', harness]
            if fs.check:
                cmd += ['--enforce-contract', fs.name]
            for g in fs.replace:
                cmd += ['--replace-call-with-contract', g]
            for g in ub.assumed:
                if g not in fs.replace and us.functions[g].body is None:
                    cmd += ['--replace-call-with-contract', g]
            cmd += ['--apply-loop-contracts', curv, gbv2]
            rc, so, se, t = sh(cmd, timeout=600)
        if rc != 0:
            raise Undecided('solver-error', '%s: vacuity build failed: %s' % (fs.name, (so + se)[-1500:]))
        cmd = ['cbmc'] + sflags + ['--object-bits', '11', '--json-ui', gbv2]
        rc, so, se, t = sh(cmd, timeout=to)
        R['seconds']['vacuity'] = t
        if rc == 124:
            raise Undecided('timeout', '%s: vacuity run exceeded %ds' % (fs.name, to))
        try:
            resv, _, _ = parse_cbmc_json(so)
        except Exception as e:
            raise Undecided('solver-error', '%s: unparsable vacuity output' % fs.name)
        if rc not in (0, 10) or any(r.get('status') == 'ERROR' for r in resv or []):
            raise Undecided('solver-error', '%s: vacuity run gave no verdict (rc=%s): %s' % (fs.name, rc, (so + se)[-400:]))
        cov = []
        for r in resv or []:
            dsc = r.get('description', '')
            if dsc.startswith('reach:'):
                loc = r.get('sourceLocation', {})
                cov.append(dict(point=dsc[6:], function=loc.get('function'), line=int(loc.get('line', 0) or 0),
                                reached=(r.get('status') == 'FAILURE')))
        if not cov:
            raise Undecided('solver-error', '%s: vacuity run produced no reachability results (rc=%s): %s' % (fs.name, rc, (so + se)[-600:]))
        R['covers'] = cov
    return R


def trace_inputs(ub, fs, R, prop_id, solver_flags=('--sat-solver', 'cadical')):
    """re-run with --trace for one failing property and extract harness inputs"""
    cmd = ['cbmc'] + list(solver_flags) + CBMC_CHECKS + fs.flags + ['--property', prop_id, '--trace', '--json-ui', R['gb']]
    rc, so, se, t = sh(cmd, timeout=600)
    vals = {}
    raw = ''
    try:
        j = json.loads(so)
        for item in j:
            if 'result' in item:
                for r in item['result']:
                    if r.get('property') == prop_id and 'trace' in r:
                        for st in r['trace']:
                            if st.get('stepType') == 'assignment':
                                lhs = st.get('lhs')
                                fn = (st.get('sourceLocation') or {}).get('function')
                                v = st.get('value', {})
                                if lhs and ('data' in v) and (fn in ('h_' + fs.name, fs.name) or lhs.startswith('g_')):
                                    if st.get('assignmentType') == 'actual-parameter' or fn == 'h_' + fs.name or lhs.startswith('g_'):
                                        vals[lhs] = v.get('data')
    except Exception as e:
        raw = 'trace parse error: %s' % e
    # a plain-text trace is easier to read in the replay file
    cmd2 = ['cbmc'] + list(solver_flags) + CBMC_CHECKS + fs.flags + ['--property', prop_id, '--trace', R['gb']]
    rc, so2, se2, t = sh(cmd2, timeout=600)
    return vals, (raw + so2)[-12000:]
