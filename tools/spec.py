"""Sidecar contract files (contracts/*.spec).

Line-oriented.  Column-0 keywords: unit, property, inst, filter, prelude,
emit, alias, include, function, assume-contract, lemma.  Indented lines are
clauses of the preceding block.  `{ ... }` blocks may span lines.  A clause
continues on following lines that start with '|' (after indentation).

A sidecar can add requires/ensures/assigns, loop contracts and ghost
statements (entry / loop head / before-call / after-loop).  It has NO directive
that changes, removes or reorders an executable statement of the emitted code.
"""
import re


class SpecError(Exception):
    pass


class FnSpec:
    def __init__(self, name):
        self.name = name
        self.property = None
        self.requires = []
        self.ghost_requires = []
        self.enforce_requires = []
        self.ghost_ensures = []
        self.ghost_assigns = []
        self.ensures = []      # (label, expr)
        self.assigns = []
        self.frees = []
        self.entry = []
        self.loops = {}        # k -> dict(invariant=[], assigns=[], decreases=None, head=[])
        self.before_call = {}  # (callee, k) -> text
        self.after_call = {}
        self.replace = []
        self.unwind = []       # (loopid, n, kind) kind in complete|bounded
        self.unwind_all = None # (bound 'Q/T', kind): every loop without a loop contract
        self.harness = None
        self.harness_decls = None
        self.reachable = []
        self.params = None     # expected names of the parameters after self ('-' = any): unnamed / renamed ones are renamed
        self.flags = []
        self.defines = []
        self.min_obligations = 0
        self.bounded = None    # text describing the bound if this is a bounded stand-in
        self.assume_only = False   # contract of an opaque stub / model (never enforced)
        self.note = None
        self.signature = None
        self.inputs = []       # harness inputs to extract from traces (names)
        self.check = True      # enforce the contract (False: contract used only for replacement)
        self.body = None       # C body for assume-contract stubs (ghost event logging)
        self.kf = {}
        self.line = 0
        self.timeout = None
        self.covers = True
        self.cover_thorough_only = False
        self.split = 1
        self.solver = None
        self.optional = False   # assume-contract for a stub that need not be reached


class UnitSpec:
    def __init__(self, path):
        self.path = path
        self.name = None
        self.property = None
        self.inst = None
        self.filter = 'boost::mqtt5'
        self.prelude = []
        self.postlude = []
        self.includes = []
        self.emit = []         # (qname, regex on cname or None)
        self.aliases = []
        self.stub_aliases = []
        self.stub_by_signature = []
        self.callable_policy = []
        self.inline_only = []
        self.counters = False
        self.functions = {}    # cname -> FnSpec
        self.order = []
        self.lemmas = {}
        self.opaque_ok = False
        self.stub_fns = []
        self.cflags = []
        self.inst_flags = []
        self.tv = None
        self.native_differential = False
        self.native_drivers = []
        parse(self, path)


def read_block(lines, i, first):
    """collect a { ... } block starting in `first` (text after keyword)"""
    text = first
    depth = first.count('{') - first.count('}')
    while depth > 0:
        i += 1
        if i >= len(lines):
            raise SpecError('unterminated { block')
        text += '\n' + lines[i]
        depth += lines[i].count('{') - lines[i].count('}')
    t = text.strip()
    if not (t.startswith('{') and t.endswith('}')):
        raise SpecError('expected { ... } block: %r' % t[:60])
    return t[1:-1], i


def parse(u, path):
    lines = open(path).read().split('\n')
    i = 0
    cur = None
    curloop = None
    while i < len(lines):
        raw = lines[i]
        line = raw.rstrip()
        if not line.strip() or line.strip().startswith('#'):
            i += 1
            continue
        indent = len(line) - len(line.lstrip())
        body = line.strip()
        # continuation lines
        while i + 1 < len(lines) and lines[i + 1].strip().startswith('|'):
            i += 1
            body += ' ' + lines[i].strip()[1:].strip()
        kw, _, rest = body.partition(' ')
        rest = rest.strip()
        if indent == 0:
            curloop = None
            if kw == 'unit':
                u.name = rest
            elif kw == 'property':
                u.property = rest
            elif kw == 'inst':
                u.inst = rest
            elif kw == 'filter':
                u.filter = rest
            elif kw == 'opaque':
                u.opaque_ok = rest in ('yes', 'true', 'on')
            elif kw == 'inst-flags':
                # extra clang++ flags for the instantiation driver ($REPO = the repository root)
                u.inst_flags += rest.split()
            elif kw == 'cflags':
                u.cflags += rest.split()
            elif kw == 'include':
                u.includes.append(rest)
            elif kw == 'prelude':
                t, i = read_block(lines, i, rest)
                u.prelude.append(t)
            elif kw == 'postlude':
                t, i = read_block(lines, i, rest)
                u.postlude.append(t)
            elif kw == 'emit':
                # emit <qualified name> [<regex on emitted name>] [as <short name>]
                asn = None
                if ' as ' in rest:
                    rest, _, asn = rest.rpartition(' as ')
                    asn = asn.strip()
                parts = rest.split()
                u.emit.append((parts[0], parts[1] if len(parts) > 1 else None, asn))
            elif kw == 'counters':
                u.counters = rest in ('yes', 'true', 'on')
            elif kw == 'inline-only':
                u.inline_only.append(rest)
            elif kw == 'callable':
                # callable <policy> <regex on stub name>
                pol, _, rx = rest.partition(' ')
                u.callable_policy.append((rx.strip(), pol.strip()))
            elif kw == 'stub-by-signature':
                u.stub_by_signature.append(rest)
            elif kw == 'stub-alias':
                a, _, b = rest.partition('=>')
                u.stub_aliases.append((a.strip(), b.strip()))
            elif kw == 'alias':
                a, _, b = rest.partition('=>')
                u.aliases.append((a.strip(), b.strip()))
            elif kw == 'tv':
                u.tv = rest
            elif kw == 'native-differential':
                # native-differential yes|always [driver ...]: bounded native run of replay/<driver>.cpp --exhaustive
                # (yes: thorough tier only; always: both tiers); default driver = the unit's own
                parts = rest.split()
                u.native_differential = parts[0] if parts and parts[0] in ('always',) else (parts and parts[0] in ('yes', 'true', 'on'))
                u.native_drivers = parts[1:]
            elif kw in ('function', 'assume-contract', 'lemma'):
                m = re.match(r'^(\S+)(?:\s+foreach\s+(\w+)=(.*))?$', rest)
                if not m and kw == 'assume-contract':
                    m = re.match(r'^(~.*?)()()$', rest)
                if not m:
                    raise SpecError('%s:%d bad function header' % (path, i + 1))
                name = m.group(1)
                cur = FnSpec(name)
                cur.line = i + 1
                cur.property = u.property
                cur.kind = kw
                if kw == 'assume-contract':
                    cur.assume_only = True
                    cur.check = False
                if m.group(2):
                    cur.foreach = (m.group(2), [x.strip() for x in m.group(3).split(',')])
                else:
                    cur.foreach = None
                u.order.append(cur)
            else:
                raise SpecError('%s:%d unknown keyword %r' % (path, i + 1, kw))
            i += 1
            continue
        if cur is None:
            raise SpecError('%s:%d clause outside a function block' % (path, i + 1))
        tgt = cur
        if kw == 'loop':
            curloop = cur.loops.setdefault(int(rest), dict(invariant=[], assigns=[], decreases=None, head=[]))
            i += 1
            continue
        if curloop is not None and indent >= 4 and kw in ('invariant', 'assigns', 'decreases', 'head'):
            if kw == 'invariant':
                curloop['invariant'].append(rest)
            elif kw == 'assigns':
                curloop['assigns'].append(rest)
            elif kw == 'decreases':
                curloop['decreases'] = rest
            elif kw == 'head':
                t, i = read_block(lines, i, rest)
                curloop['head'].append(t)
            i += 1
            continue
        curloop = None
        if kw == 'property':
            cur.property = rest
        elif kw == 'requires':
            cur.requires.append(rest)
        elif kw == 'ensures':
            m = re.match(r'^\[?([A-Za-z0-9_.\-]+)\]?:\s*(.*)$', rest)
            if not m:
                raise SpecError('%s:%d ensures needs "label: expr"' % (path, i + 1))
            cur.ensures.append((m.group(1), m.group(2)))
        elif kw == 'assigns':
            cur.assigns.append(rest)
        elif kw == 'ghost-requires':
            cur.ghost_requires.append(rest)
        elif kw == 'enforce-requires':
            cur.enforce_requires.append(rest)
        elif kw == 'ghost-assigns':
            cur.ghost_assigns.append(rest)
        elif kw == 'ghost-ensures':
            m = re.match(r'^\[?([A-Za-z0-9_.\-]+)\]?:\s*(.*)$', rest)
            cur.ghost_ensures.append((m.group(1), m.group(2)))
        elif kw == 'entry':
            t, i = read_block(lines, i, rest)
            cur.entry.append(t)
        elif kw == 'before-call':
            m = re.match(r'^(\S+)\s+(\d+)\s+(\{.*)$', rest)
            t, i = read_block(lines, i, m.group(3))
            cur.before_call[(m.group(1), int(m.group(2)))] = t
        elif kw == 'replace':
            cur.replace += [x.strip() for x in rest.split(',') if x.strip()]
        elif kw == 'unwind':
            # unwind <function>.<loop>:<n> complete|bounded
            parts = rest.split()
            cur.unwind.append((parts[0], parts[1] if len(parts) > 1 else 'bounded'))
        elif kw == 'unwind-all':
            parts = rest.split()
            cur.unwind_all = (parts[0], parts[1] if len(parts) > 1 else 'bounded')
        elif kw == 'bounded':
            cur.bounded = rest
        elif kw == 'harness':
            t, i = read_block(lines, i, rest)
            cur.harness = t
        elif kw == 'body':
            t, i = read_block(lines, i, rest)
            cur.body = t
        elif kw == 'reachable':
            cur.reachable += [int(x) for x in rest.replace(',', ' ').split()]
        elif kw == 'flags':
            cur.flags += rest.split()
        elif kw == 'defines':
            cur.defines += rest.split()
        elif kw == 'min-obligations':
            cur.min_obligations = int(rest)
        elif kw == 'note':
            cur.note = rest
        elif kw == 'signature':
            cur.signature = rest
        elif kw == 'inputs':
            cur.inputs += rest.replace(',', ' ').split()
        elif kw == 'optional':
            cur.optional = True
        elif kw == 'params':
            cur.params = rest.split()
        elif kw == 'nocheck':
            cur.check = False
        elif kw == 'nocover':
            cur.covers = False
        elif kw == 'split':
            cur.split = int(rest)
        elif kw == 'cover-thorough-only':
            cur.cover_thorough_only = True
        elif kw == 'timeout':
            cur.timeout = int(rest)
        elif kw == 'solver':
            cur.solver = rest
        else:
            raise SpecError('%s:%d unknown clause %r' % (path, i + 1, kw))
        i += 1
    # expand foreach
    out = []
    for f in u.order:
        if f.foreach:
            var, vals = f.foreach
            for v in vals:
                out.append(subst_fn(f, var, v))
        else:
            out.append(f)
    u.order = out
    for f in out:
        if f.name in u.functions:
            raise SpecError('%s: duplicate block for %s' % (path, f.name))
        u.functions[f.name] = f


def subst_fn(f, var, val):
    import copy
    g = copy.deepcopy(f)
    # value may be "a:b:c" -> $K, $K1, $K2 ...
    parts = val.split(':')

    def sub(s):
        if s is None:
            return None
        for idx in range(len(parts) - 1, 0, -1):
            s = s.replace('$%s%d' % (var, idx), parts[idx])
        return s.replace('$' + var, parts[0])
    g.name = sub(g.name)
    g.property = sub(g.property)
    g.requires = [sub(x) for x in g.requires]
    g.ensures = [(sub(a), sub(b)) for a, b in g.ensures]
    g.assigns = [sub(x) for x in g.assigns]
    g.ghost_requires = [sub(x) for x in g.ghost_requires]
    g.enforce_requires = [sub(x) for x in g.enforce_requires]
    g.ghost_assigns = [sub(x) for x in g.ghost_assigns]
    g.ghost_ensures = [(sub(a), sub(b)) for a, b in g.ghost_ensures]
    g.entry = [sub(x) for x in g.entry]
    g.replace = [sub(x) for x in g.replace]
    g.unwind = [(sub(a), b) for a, b in g.unwind]
    g.harness = sub(g.harness)
    g.body = sub(g.body)
    g.note = sub(g.note)
    for k, l in g.loops.items():
        l['invariant'] = [sub(x) for x in l['invariant']]
        l['assigns'] = [sub(x) for x in l['assigns']]
        l['decreases'] = sub(l['decreases'])
        l['head'] = [sub(x) for x in l['head']]
    g.before_call = {(sub(a), b): sub(t) for (a, b), t in g.before_call.items()}
    g.foreach = None
    return g
