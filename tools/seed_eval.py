#!/usr/bin/env python3
"""tools/seed_eval.py <seed-id> <worktree> <property> [<property>...]
Confirms a seeded change (suite passes with it, demo fails with it, demo passes
without it) in its scratch worktree, then applies it to /repo, runs ./check for
the given properties, and restores /repo.  Writes seeded/<seed-id>/meta.json."""
import json, os, subprocess, sys, time
VERIF = os.path.dirname(os.path.dirname(os.path.abspath(__file__)))
def sh(cmd, cwd=None, timeout=3600):
    t = time.time()
    r = subprocess.run(cmd, shell=True, cwd=cwd, stdout=subprocess.PIPE, stderr=subprocess.STDOUT, text=True, timeout=timeout)
    return r.returncode, r.stdout, round(time.time() - t, 1)
def main():
    sid, wt = sys.argv[1], sys.argv[2]
    props = sys.argv[3:]
    d = os.path.join(VERIF, 'seeded', sid)
    meta = json.load(open(os.path.join(d, 'meta.json'))) if os.path.exists(os.path.join(d, 'meta.json')) else {}
    meta.setdefault('seed', sid)
    ran = meta.setdefault('what_i_ran', {})
    if wt != '-':
        so = os.path.join(wt, 'seed_out')
        # the worktree has the change applied
        rc, out, t = sh('git -C %s diff --stat -- include | tail -1' % wt)
        ran['worktree_diff'] = out.strip()
        if os.path.isdir(os.path.join(wt, '_build', 'test')):
            rc, out, t = sh('cmake --build %s/_build -j8 2>&1 | tail -1; ctest --test-dir %s/_build/test --timeout 900 2>&1 | tail -4' % (wt, wt))
            ran['existing_suite_with_change'] = dict(ok=('100% tests passed' in out), tail=out[-300:], seconds=t)
        rc1, out1, t1 = sh('sh %s/build_and_run.sh' % so, timeout=1800)
        ran['demo_with_change'] = dict(exit=rc1, tail=out1[-400:], seconds=t1)
        sh('git -C %s apply -R %s/patch.diff' % (wt, so))
        rc0, out0, t0 = sh('sh %s/build_and_run.sh' % so, timeout=1800)
        ran['demo_without_change'] = dict(exit=rc0, tail=out0[-300:], seconds=t0)
        sh('git -C %s apply %s/patch.diff' % (wt, so))
        meta['confirmed'] = bool(rc1 != 0 and rc0 == 0 and ran.get('existing_suite_with_change', {}).get('ok', False))
    # my checks against the change
    rc, out, t = sh('git -C /repo status --short -- include')
    if out.strip():
        print('refusing: /repo has local changes'); return 2
    rc, out, t = sh('git -C /repo apply %s/patch.diff' % d)
    if rc != 0:
        print('patch does not apply to /repo:', out); return 2
    checks = meta.setdefault('checks', {})
    try:
        for p in props:
            rc, out, t = sh('./check %s' % p, cwd=VERIF, timeout=3000)
            lines = [l for l in out.split('\n') if l.startswith(('VIOLATION', 'UNDECIDED', 'property ', '  failed obligation'))]
            checks[p] = dict(exit=rc, detected=(rc == 1), seconds=t, lines=lines[:8])
            print(p, 'exit', rc, 'detected' if rc == 1 else 'NOT detected', t, 's')
            for l in lines[:6]:
                print('   ', l[:220])
    finally:
        sh('git -C /repo checkout -- .')
    json.dump(meta, open(os.path.join(d, 'meta.json'), 'w'), indent=1)
    return 0
if __name__ == '__main__':
    sys.exit(main())
