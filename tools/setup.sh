#!/bin/sh
# offline setup: nothing to build; verify the tools the checks need are present
set -e
cd "$(dirname "$0")/.."
for t in python3 clang++ g++ cbmc goto-cc goto-instrument cvc5; do
  command -v $t >/dev/null || { echo "missing tool: $t"; exit 1; }
done
cbmc --version | grep -q '^6\.' || { echo "unexpected cbmc version"; exit 1; }
python3 -m py_compile tools/*.py
mkdir -p build evidence
echo "setup ok"
