#!/usr/bin/env python3
"""./check <property> [--tier quick|thorough] [--replay <file>]

exit 0  every obligation discharged (KNOWN-FINDING lines for listed findings)
exit 1  VIOLATION property=<id> replay=<path> [... no-failing-input-found]
exit 2  UNDECIDED property=<id> reason=<...>   (never a violation)
"""
import glob
import json
import os
import re
import subprocess
import sys
import time
from concurrent.futures import ThreadPoolExecutor

HERE = os.path.dirname(os.path.abspath(__file__))
sys.path.insert(0, HERE)
import pipeline  # noqa
import spec as specmod  # noqa
from pipeline import Undecided, VERIF, REPO, BUILD, sh  # noqa

TRUSTED_BASE = [
    "clang 14 JSON AST of the instantiation driver TU is the program g++ 12 compiles (-std=c++17 -DNDEBUG as in the tested build)",
    "tools/cxx2c.py (AST-driven C emitter) and the closed list of what it drops: exceptions, destructors/lifetimes, allocators, access control, const",
    "models/*.h: libstdc++ string_view/string/vector/optional/pair/algorithms behave as modelled inside their stated preconditions",
    "CBMC 6.11 goto-cc + goto-instrument --dfcc contract instrumentation + cadical back end",
    "machine model x86-64 LP64, char signed; arithmetic bit-precise (nothing treated as mathematical integers)",
]


def units_for(pid):
    out = []
    for p in sorted(glob.glob(os.path.join(VERIF, 'contracts', '*.spec'))):
        us = specmod.UnitSpec(p)
        fns = [f for f in us.order if not f.assume_only and pid in [x.strip() for x in (f.property or '').split(',')]]
        if fns:
            out.append((us, fns))
    return out


def load_known():
    p = os.path.join(VERIF, 'known_findings.json')
    if not os.path.exists(p):
        return []
    return json.load(open(p)).get('findings', [])


def native_replay(unit, replay_path):
    """compile replay/<unit>.cpp against the real headers and run it on the replay file"""
    src = os.path.join(VERIF, 'replay', unit + '.cpp')
    if not os.path.exists(src):
        return None, 'no native replay driver for unit ' + unit
    exe = os.path.join(BUILD, unit, 'replay_' + unit)
    os.makedirs(os.path.dirname(exe), exist_ok=True)
    newest = max(os.path.getmtime(src), newest_mtime(os.path.join(REPO, 'include')))
    if not os.path.exists(exe) or os.path.getmtime(exe) < newest:
        cmd = ['g++', '-std=c++17', '-O1', '-g', '-fsanitize=address,undefined', '-fno-sanitize-recover=undefined',
               '-fno-access-control', '-I' + os.path.join(REPO, 'include'), '-I' + VERIF, src, '-o', exe]
        rc, so, se, t = sh(cmd, timeout=600, mem_gb=64)
        if rc != 0:
            return None, 'replay driver does not compile: ' + se[-1500:]
    env = dict(os.environ, ASAN_OPTIONS='detect_leaks=0:abort_on_error=0', VERIF_SEED=os.environ.get('VERIF_SEED', '1'))
    try:
        r = subprocess.run([exe, replay_path], stdout=subprocess.PIPE, stderr=subprocess.PIPE, text=True, timeout=600, env=env)
    except subprocess.TimeoutExpired:
        return None, 'replay driver timed out'
    out = (r.stdout + r.stderr)[-4000:]
    if 'CONFIRMED' in r.stdout and 'NOT-CONFIRMED' not in r.stdout:
        return True, out
    if r.returncode != 0 and ('AddressSanitizer' in r.stderr or 'runtime error' in r.stderr):
        return True, 'sanitizer fault on the real code:\n' + out
    return False, out


def native_differential(unit):
    """thorough tier: the real functions against an independent native reference
    over an exhaustively enumerated boundary domain (redundant evidence)"""
    exe = build_replay(unit)
    if exe is None:
        return dict(unit=unit, status='no-driver')
    env = dict(os.environ, ASAN_OPTIONS='detect_leaks=0', VERIF_SEED=os.environ.get('VERIF_SEED', '1'))
    t = time.time()
    try:
        r = subprocess.run([exe, '--exhaustive'], stdout=subprocess.PIPE, stderr=subprocess.PIPE, text=True, timeout=1800, env=env)
    except subprocess.TimeoutExpired:
        return dict(unit=unit, status='timeout')
    m = re.search(r'native differential: (\d+) evaluations, (\d+) disagreements', r.stdout)
    confirmed = [l for l in r.stdout.split('\n') if l.startswith('CONFIRMED')]
    return dict(unit=unit, status='ran', evaluations=int(m.group(1)) if m else 0, disagreements=int(m.group(2)) if m else -1,
                first=confirmed[:3], seconds=round(time.time() - t, 1), sanitizer_fault=('AddressSanitizer' in r.stderr or 'runtime error' in r.stderr),
                stderr_tail=r.stderr[-800:])


def build_replay(unit):
    src = os.path.join(VERIF, 'replay', unit + '.cpp')
    if not os.path.exists(src):
        return None
    exe = os.path.join(BUILD, unit, 'replay_' + unit)
    os.makedirs(os.path.dirname(exe), exist_ok=True)
    newest = max(os.path.getmtime(src), newest_mtime(os.path.join(REPO, 'include')))
    if not os.path.exists(exe) or os.path.getmtime(exe) < newest:
        cmd = ['g++', '-std=c++17', '-O1', '-g', '-fsanitize=address,undefined', '-fno-sanitize-recover=undefined',
               '-fno-access-control', '-I' + os.path.join(REPO, 'include'), '-I' + VERIF, src, '-o', exe]
        rc, so, se, t = sh(cmd, timeout=900, mem_gb=64)
        if rc != 0:
            return None
    return exe


def newest_mtime(d):
    m = 0
    for root, _, files in os.walk(d):
        for f in files:
            m = max(m, os.path.getmtime(os.path.join(root, f)))
    return m


def main(argv):
    if len(argv) < 2:
        print(__doc__)
        return 2
    pid = argv[1]
    tier = os.environ.get('VERIF_TIER', 'quick')
    replay = None
    i = 2
    while i < len(argv):
        if argv[i] == '--tier':
            tier = argv[i + 1]
            i += 2
        elif argv[i] == '--replay':
            replay = argv[i + 1]
            i += 2
        else:
            i += 1
    seed = int(os.environ.get('VERIF_SEED', '1') or 1)
    if replay:
        j = json.load(open(replay))
        ok, out = native_replay(j['unit'], replay)
        print(out)
        print('replay of %s on the real code: %s' % (j['obligation']['id'], 'CONFIRMED' if ok else ('NOT-CONFIRMED' if ok is False else 'NO-DRIVER')))
        return 1 if ok else 0
    t0 = time.time()
    try:
        return run_property(pid, tier, seed, t0)
    except Undecided as e:
        print('UNDECIDED property=%s reason=%s' % (pid, e.reason))
        print(e.detail)
        write_evidence(pid, tier, seed, t0, None, undecided=e)
        return 2


def run_property(pid, tier, seed, t0):
    units = units_for(pid)
    if not units:
        raise Undecided('extraction-break', 'no contracts carry property %s' % pid)
    builds = []
    for us, fns in units:
        ub = pipeline.emit_unit(us)
        builds.append((ub, fns))
    jobs = []
    for ub, fns in builds:
        for fs in fns:
            jobs.append((ub, fs, None))
            if tier == 'thorough' and not fs.bounded and fs.solver is None and 'nocross' not in fs.flags:
                jobs.append((ub, fs, 'cvc5'))
    results = []
    errors = []

    def work(job):
        ub, fs, solver = job
        fs2 = fs
        try:
            if tier == 'thorough' and fs.bounded:
                pass
            return pipeline.run_function(ub, fs2, tier=tier, solver=solver)
        except Undecided as e:
            if solver == 'cvc5':
                return dict(function=fs.name, unit=ub.spec.name, crosscheck_failed=str(e), obligations=[], seconds={}, backend='cvc5', covers=None, bounded=fs.bounded, cmds=[])
            return e
    with ThreadPoolExecutor(max_workers=int(os.environ.get('VERIF_JOBS', '16'))) as ex:
        for r in ex.map(work, jobs):
            if isinstance(r, Undecided):
                errors.append(r)
            else:
                results.append(r)
    if errors:
        raise errors[0]
    nd = []
    done = set()
    for ub, fns in builds:
        nds = ub.spec.native_differential
        if nds and (tier == 'thorough' or nds == 'always'):
            for drv in (ub.spec.native_drivers or [ub.spec.name]):
                if drv not in done:
                    done.add(drv)
                    nd.append(native_differential(drv))
    return judge(pid, tier, seed, t0, builds, results, nd)


def judge(pid, tier, seed, t0, builds, results, nd=()):
    fsmap = {}
    ubmap = {}
    for ub, fns in builds:
        for fs in fns:
            fsmap[(ub.spec.name, fs.name)] = fs
            ubmap[(ub.spec.name, fs.name)] = ub
    proved = []       # obligations counted as proof
    bounded = []
    failures = []     # (R, obligation)
    cross = []
    vac_total = vac_hit = 0
    for R in results:
        if R.get('crosscheck_failed'):
            cross.append('%s: cvc5 cross-check undecided: %s' % (R['function'], R['crosscheck_failed'][:200]))
            continue
        fs = fsmap[(R['unit'], R['function'])]
        primary = R.get('backend') == (fs.solver or 'cadical')
        obs = R['obligations']
        unw = [o for o in obs if '.unwind.' in o['id']]
        for o in unw:
            if o['status'] != 'SUCCESS':
                raise Undecided('bound-too-small', '%s: unwinding assertion %s does not hold: the stated bound is not complete' % (R['function'], o['id']))
        for o in obs:
            if o['status'] != 'SUCCESS' and (o['description'] or '').startswith('model limit:'):
                raise Undecided('model-limit', '%s: %s (%s)' % (R['function'], o['description'], o['id']))
        is_bounded = bool(fs.bounded) or any(k == 'bounded' for _, k in fs.unwind) or bool(fs.unwind_all and fs.unwind_all[1] == 'bounded')
        bad = [o for o in obs if o['status'] != 'SUCCESS']
        fails = [o for o in bad if o['status'] == 'FAILURE']
        if bad and not fails:
            raise Undecided('solver-error', '%s: obligations with status %s' % (R['function'], sorted(set(o['status'] for o in bad))))
        if not primary:
            # cross-check back end must agree
            cross.append('%s: cvc5 %s (%d obligations, %.1fs)' % (R['function'], 'agrees' if not fails else 'DISAGREES', len(obs), R['seconds'].get('cvc5', 0)))
            continue
        if len(obs) == 0 or len(obs) < fs.min_obligations:
            raise Undecided('vacuous', '%s: %d obligations generated, at least %d expected' % (R['function'], len(obs), max(1, fs.min_obligations)))
        if is_bounded:
            bounded.append(dict(function=R['function'], bound=fs.bounded or ', '.join(u for u, k in fs.unwind if k == 'bounded'),
                                obligations=len(obs), failed=len(fails), status='holds-up-to-bound' if not fails else 'FAILS'))
        else:
            proved += [(R, o) for o in obs]
        for o in fails:
            failures.append((R, o))
        # vacuity
        if R.get('covers') is not None:
            cov = R['covers']
            want = [('end', 'h_' + R['function'])] + [(str(k), R['function']) for k in fs.reachable]
            for pt, fn in want:
                if pt != 'end' and not any(c['point'] == pt and c['function'] == fn for c in cov):
                    # the function no longer has that many return points (a benign edit): nothing to probe
                    continue
                vac_total += 1
                hit = any(c['point'] == pt and c['function'] == fn and c['reached'] for c in cov)
                if hit:
                    vac_hit += 1
                elif not fails:
                    raise Undecided('vacuous', '%s: point %s of %s is unreachable under the contract preconditions' % (R['function'], pt, fn))
    # ------------------------------------------------------------ violations
    known = load_known()
    violations = []
    known_lines = []
    rdir = os.path.join(os.environ.get('VERIF_OUT', VERIF), 'replay', pid)
    if failures:
        os.makedirs(rdir, exist_ok=True)
    # group failures per function: report the most specific obligation first
    seen_fn = {}
    for R, o in failures:
        seen_fn.setdefault((R['unit'], R['function']), []).append(o)
    for (unit, fn), obs in seen_fn.items():
        fs = fsmap[(unit, fn)]
        ub = ubmap[(unit, fn)]
        R = [r for r in results if r['unit'] == unit and r['function'] == fn and r.get('backend') == (fs.solver or 'cadical')][0]
        obs.sort(key=lambda o: (0 if ('pointer' in o['id'] or 'bounds' in o['id'] or 'model precondition' in (o['description'] or '')) else 1, o['id']))
        # known findings: rerun with the witness excluded
        kf_hit = None
        for kf in known:
            if kf.get('status') == 'open' and (kf.get('property') == pid or pid in kf.get('also', [])) and kf.get('function') == fn:
                try:
                    R2 = pipeline.run_function(ub, fs, tier=tier, extra_defs=('KF_EXCLUDE_%s=1' % kf['id'],))
                except Undecided as e:
                    continue
                still = [x for x in R2['obligations'] if x['status'] == 'FAILURE']
                if not still:
                    kf_hit = kf
                    break
        if kf_hit is not None:
            known_lines.append('KNOWN-FINDING: property=%s %s' % (pid, kf_hit['what']))
            continue
        o = obs[0]
        vals, rawtrace = pipeline.trace_inputs(ub, fs, R, o['id'])
        meta = ub.em.fn_meta.get(fn, {})
        rp = os.path.join(rdir, '%s.%s.json' % (fn, re.sub(r'[^A-Za-z0-9_.]+', '_', o['label'] or o['id'])))
        rec = dict(property=pid, unit=unit, function=fn, obligation=o, all_failed=[dict(id=x['id'], label=x['label'], description=x['description']) for x in obs],
                   repo_location='%s:%s' % (meta.get('file'), meta.get('line')), qualified_name=meta.get('qname'),
                   backend=R.get('backend'), inputs=vals, cbmc_trace=rawtrace, cmds=R['cmds'])
        json.dump(rec, open(rp, 'w'), indent=1)
        ok, out = native_replay(unit, rp)
        rec['native'] = dict(status='confirmed' if ok else ('not-confirmed' if ok is False else 'no-driver'), output=out)
        json.dump(rec, open(rp, 'w'), indent=1)
        violations.append((fn, o, rp, ok))
    for d in nd:
        if d.get('status') == 'ran' and (d.get('disagreements', 0) != 0 or d.get('sanitizer_fault')):
            os.makedirs(rdir, exist_ok=True)
            rp = os.path.join(rdir, 'native_differential.%s.json' % d['unit'])
            json.dump(dict(property=pid, unit=d['unit'], function='native-differential', obligation=dict(id='native-differential', label='real code vs independent reference', description='; '.join(d.get('first') or [d.get('stderr_tail', '')])), native=dict(status='confirmed', output='\n'.join(d.get('first', [])))), open(rp, 'w'), indent=1)
            violations.append(('native-differential', dict(id='native-differential', label=None, description='; '.join(d.get('first') or ['sanitizer fault'])), rp, True))
    write_evidence(pid, tier, seed, t0, dict(builds=builds, results=results, proved=proved, bounded=bounded, failures=failures,
                                              cross=cross, vac=(vac_hit, vac_total), violations=violations, known_lines=known_lines,
                                              fsmap=fsmap, nd=list(nd)))
    for l in known_lines:
        print(l)
    nob = len(proved)
    ndis = sum(1 for _, o in proved if o['status'] == 'SUCCESS')
    print('property %s tier %s: %d functions under contract, %d/%d obligations discharged (unbounded), %d bounded stand-ins, vacuity %d/%d, %.1fs' % (
        pid, tier, len(set((r['unit'], r['function']) for r in results)), ndis, nob, len(bounded), vac_hit, vac_total, time.time() - t0))
    if cross:
        for c in cross:
            print('  cross-check: ' + c)
        if any('DISAGREES' in c for c in cross) and not violations:
            print('UNDECIDED property=%s reason=backend-disagreement' % pid)
            return 2
    if violations:
        for fn, o, rp, ok in violations:
            print('  failed obligation %s [%s] in %s: %s' % (o['id'], o['label'], fn, o['description']))
            print('VIOLATION property=%s replay=%s%s' % (pid, rp, '' if ok else ' no-failing-input-found'))
        return 1
    return 0


def write_evidence(pid, tier, seed, t0, S, undecided=None):
    # VERIF_OUT: scratch output directory for runs against a modified copy (seed evaluation); default /verif
    os.makedirs(os.path.join(os.environ.get('VERIF_OUT', VERIF), 'evidence'), exist_ok=True)
    path = os.path.join(os.environ.get('VERIF_OUT', VERIF), 'evidence', pid + '.json')
    ev = dict(property_id=pid, tier=tier if tier in ('quick', 'thorough') else 'quick', seed=seed, level='proof',
              coverage={}, assumptions=[], wall_s=round(time.time() - t0, 2), violations=0)
    cov = ev['coverage']
    if S is None:
        ev['level'] = 'other'
        cov['explanation'] = 'UNDECIDED: %s: %s' % (undecided.reason, undecided.detail[:1500])
        cov['obligations'] = 0
        cov['discharged'] = 0
        json.dump(ev, open(path, 'w'), indent=1)
        return
    proved = S['proved']
    nob = len(proved)
    ndis = sum(1 for _, o in proved if o['status'] == 'SUCCESS')
    cov['obligations'] = nob
    cov['discharged'] = ndis
    cmds = []
    for R in S['results']:
        if R.get('cmds'):
            cmds = R['cmds']
            break
    cov['checker_cmd'] = ' && '.join(cmds)
    tb = list(TRUSTED_BASE)
    assumptions = []
    fns = []
    samples = []
    solver_time = {}
    explanation = []
    for ub, fl in S['builds']:
        us = ub.spec
        for f in us.order:
            if f.assume_only:
                assumptions.append('assumed contract (trusted, never enforced) on %s: requires %s; ensures %s' % (
                    f.name, ' && '.join(f.requires) or 'true', ' && '.join(e for _, e in f.ensures) or 'true'))
        assumptions.append('unit %s: AST from `%s` (%.1fs)' % (us.name, ub.ast_cmd, ub.ast_s))
        if ub.em.stubs:
            assumptions.append('unit %s: opaque stubs reached (class 3, nondeterministic results): %s' % (us.name, ', '.join(sorted(ub.em.stubs))))
        if ub.em.opaque_types:
            assumptions.append('unit %s: types kept opaque: %s' % (us.name, ', '.join(sorted(ub.em.opaque_types))[:600]))
        txt = ub.ctext
        nassume = len(re.findall(r'__CPROVER_assume', txt))
        if nassume:
            assumptions.append('unit %s: %d __CPROVER_assume statements in prelude/harness text (listed in contracts/%s.spec)' % (us.name, nassume, us.name))
        for fs in fl:
            meta = ub.em.fn_meta.get(fs.name, {})
            fns.append(dict(function=meta.get('qname', fs.name), emitted_as=fs.name, source='%s:%s' % (meta.get('file'), meta.get('line')),
                            callees_replaced_by_contract=fs.replace, loops_with_contract=sorted(fs.loops.keys()),
                            unwound=[u for u, _ in fs.unwind], note=fs.note))
            if fs.note:
                explanation.append('%s: %s' % (fs.name, fs.note))
    for R in S['results']:
        for k, v in R.get('seconds', {}).items():
            solver_time[k] = round(solver_time.get(k, 0) + v, 2)
    # a few obligations written out
    picked = 0
    for R, o in proved:
        if o['label'] and picked < 12:
            fs = S['fsmap'][(R['unit'], R['function'])]
            clause = dict(fs.ensures).get(o['label'])
            samples.append(dict(obligation=o['id'], label=o['label'], function=R['function'], clause=clause, status=o['status'],
                                backend=R.get('backend'), seconds=R['seconds'].get(R.get('backend'), None)))
            picked += 1
    for R, o in proved[:6]:
        if not o['label']:
            samples.append(dict(obligation=o['id'], function=o['function'], description=o['description'], status=o['status'], backend=R.get('backend')))
    cov['samples'] = samples
    cov['trusted_base'] = tb
    cov['functions_under_contract'] = fns
    cov['bounded_checks'] = list(S['bounded']) + [
        dict(function='native:replay/%s.cpp --exhaustive' % d.get('unit'), bound='enumerated boundary domain stated at the top of the driver; %s evaluations' % d.get('evaluations'),
             obligations=d.get('evaluations', 0), failed=d.get('disagreements', 0),
             status=('holds-on-the-enumerated-domain (native run, not a proof)' if d.get('status') == 'ran' and not d.get('disagreements') and not d.get('sanitizer_fault') else str(d.get('status')) + ('/FAILS' if d.get('disagreements') or d.get('sanitizer_fault') else '')))
        for d in S.get('nd', [])]
    cov['vacuity'] = dict(reach_points_hit=S['vac'][0], reach_points_required=S['vac'][1],
                          method='second build with assert(0) at every marked return and at the harness end; each must FAIL')
    cov['solver_time_s'] = solver_time
    cov['cross_check'] = S['cross']
    cov['native_differential'] = S.get('nd', [])
    cov['explanation'] = ' | '.join(explanation) if explanation else 'see DESIGN.md section 5 for %s' % pid
    cov['known_findings'] = S['known_lines']
    ev['assumptions'] = assumptions
    ev['violations'] = len(S['violations'])
    if S['violations']:
        cov['failed_obligations'] = [dict(function=fn, obligation=o['id'], label=o['label'], description=o['description'], replay=rp,
                                          confirmed_on_real_code=bool(ok)) for fn, o, rp, ok in S['violations']]
    if nob == 0:
        ev['level'] = 'other'
        cov['explanation'] = 'only bounded stand-ins: ' + cov['explanation']
    json.dump(ev, open(path, 'w'), indent=1)


if __name__ == '__main__':
    sys.exit(main(sys.argv))
