"""Loading and indexing of clang's JSON AST dump (clang 14, -ast-dump=json).

The dump is a concatenation of JSON documents (one per declaration matched by
-ast-dump-filter).  Source locations are delta-encoded (file/line only when
they change) so a pre-pass in document order resolves absolute positions.
"""
import json
import re
import subprocess
import os
import hashlib

DECL_CTX = ('NamespaceDecl', 'CXXRecordDecl', 'ClassTemplateSpecializationDecl',
            'ClassTemplatePartialSpecializationDecl', 'EnumDecl')


class AST:
    def __init__(self, docs, filt='boost::mqtt5'):
        self.docs = docs
        comps = [c for c in filt.split('::') if c]
        # namespaces enclosing the dumped root namespace (relative to boost::mqtt5)
        self.root_name = comps[-1] if comps else None
        self.root_ctx = [c for c in comps[:-1] if c not in ('boost', 'mqtt5')]
        self.byid = {}
        self.parent = {}
        self.records = {}     # qualified name -> record decl (definition)
        self.enums = {}
        self.enumconst = {}   # id -> (value, enum decl)
        self.functions = {}   # qualified name -> [decl with body]
        self.typedefs = {}    # qualified alias name -> underlying type spelling
        self._file = None
        self._line = None
        for d in docs:
            self._prepass(d, None)
        for d in docs:
            if d.get('kind') == 'NamespaceDecl' and d.get('name') == self.root_name:
                self._index(d, list(self.root_ctx))
            else:
                self._index(d, [])

    # -- source locations -------------------------------------------------
    def _loc(self, l):
        if not isinstance(l, dict):
            return
        if 'spellingLoc' in l or 'expansionLoc' in l:
            self._loc(l.get('spellingLoc'))
            self._loc(l.get('expansionLoc'))
            return
        if 'file' in l:
            self._file = l['file']
        if 'line' in l:
            self._line = l['line']

    def _prepass(self, n, parent):
        if not isinstance(n, dict):
            return
        if 'loc' in n:
            self._loc(n['loc'])
            n['_file'], n['_line'] = self._file, self._line
        if 'range' in n:
            self._loc(n['range'].get('begin'))
            if '_file' not in n:
                n['_file'], n['_line'] = self._file, self._line
            n['_bfile'], n['_bline'] = self._file, self._line
            self._loc(n['range'].get('end'))
            n['_eline'] = self._line
        if 'id' in n and ('kind' in n) and (n['id'] not in self.byid or 'inner' in n):
            self.byid[n['id']] = n
        if parent is not None:
            self.parent[id(n)] = parent
        for c in n.get('inner', []):
            self._prepass(c, n)

    # -- qualified names ---------------------------------------------------
    def _index(self, n, ctx):
        k = n.get('kind')
        name = n.get('name')
        if k in ('NamespaceDecl',):
            # qualified names are relative to boost::mqtt5 whatever the dump filter was
            sub = ctx + [name] if (name and not (name in ('mqtt5', 'boost') and not ctx)) else ctx
            for c in n.get('inner', []):
                self._index(c, sub)
            return
        if k in ('CXXRecordDecl', 'ClassTemplateSpecializationDecl'):
            nm = name or '_anon'
            if k == 'ClassTemplateSpecializationDecl':
                nm += '<' + ', '.join(a.replace('boost::mqtt5::', '') for a in template_args(n)) + '>'
            q = '::'.join(ctx + [nm])
            n['_qname'] = q
            if n.get('completeDefinition') or any(c.get('kind') == 'FieldDecl' or c.get('kind') == 'CXXMethodDecl' for c in n.get('inner', [])):
                self.records.setdefault(q, n)
            for c in n.get('inner', []):
                self._index(c, ctx + [nm])
            return
        if k == 'ClassTemplateDecl':
            for c in n.get('inner', []):
                if c.get('kind') == 'CXXRecordDecl':
                    mark_pattern(c)      # the dependent pattern: never emitted
                    self._index(c, ctx)
                elif c.get('kind') == 'ClassTemplateSpecializationDecl':
                    self._index(c, ctx)
            return
        if k == 'ClassTemplatePartialSpecializationDecl':
            mark_pattern(n)
            return
        if k == 'EnumDecl':
            q = '::'.join(ctx + [name or '_anon'])
            n['_qname'] = q
            self.enums[q] = n
            prev = -1
            for c in n.get('inner', []):
                if c.get('kind') == 'EnumConstantDecl':
                    v = const_value(c)
                    if v is None:
                        v = prev + 1
                    prev = v
                    self.enumconst[c['id']] = (v, n)
                    c['_qname'] = q + '::' + c['name']
            return
        if k == 'FunctionTemplateDecl':
            first = True
            for c in n.get('inner', []):
                if c.get('kind') in ('FunctionDecl', 'CXXMethodDecl', 'CXXConstructorDecl', 'CXXConversionDecl'):
                    if first:
                        first = False      # the dependent pattern
                        c['_pattern'] = True
                        continue
                    c['_inst'] = True
                    self._index(c, ctx)
            return
        if k == 'FriendDecl':
            # friend function definitions live in the enclosing namespace
            for c in n.get('inner', []):
                self._index(c, ctx[:-1])
            return
        if k in ('FunctionDecl', 'CXXMethodDecl', 'CXXConstructorDecl', 'CXXConversionDecl', 'CXXDestructorDecl'):
            q = '::'.join(ctx + [name or '_anon'])
            n['_qname'] = q
            n['_ctx'] = '::'.join(ctx)
            if has_body(n) and not n.get('_pattern'):
                self.functions.setdefault(q, []).append(n)
            # local classes / lambdas inside bodies are found lazily
            return
        if k == 'VarDecl':
            n['_qname'] = '::'.join(ctx + [name or '_anon'])
            return
        if k in ('TypeAliasDecl', 'TypedefDecl') and name:
            t = n.get('type') or {}
            self.typedefs['::'.join(ctx + [name])] = t.get('desugaredQualType') or t.get('qualType') or ''
            return
        if k in ('LinkageSpecDecl',):
            for c in n.get('inner', []):
                self._index(c, ctx)

    def find_functions(self, qname):
        return self.functions.get(qname, [])


def mark_pattern(n):
    if n.get('kind') in ('CXXMethodDecl', 'CXXConstructorDecl', 'FunctionDecl', 'CXXConversionDecl', 'CXXDestructorDecl'):
        n['_pattern'] = True
    for c in n.get('inner', []):
        if c.get('kind') not in ('CompoundStmt',):
            mark_pattern(c)


def has_body(fn):
    return any(c.get('kind') == 'CompoundStmt' for c in fn.get('inner', []))


def body_of(fn):
    for c in fn.get('inner', []):
        if c.get('kind') == 'CompoundStmt':
            return c
    return None


def params_of(fn):
    return [c for c in fn.get('inner', []) if c.get('kind') == 'ParmVarDecl']


def const_value(n):
    """value of a ConstantExpr/IntegerLiteral somewhere directly below n"""
    for c in n.get('inner', []):
        if c.get('kind') == 'ConstantExpr' and 'value' in c:
            return int(c['value'])
        if c.get('kind') == 'IntegerLiteral':
            return int(c['value'])
        if c.get('kind') in ('ImplicitCastExpr', 'ConstantExpr'):
            v = const_value(c)
            if v is not None:
                return v
    return None


def template_args(n):
    out = []
    for c in n.get('inner', []):
        if c.get('kind') == 'TemplateArgument':
            if 'value' in c:
                out.append(str(c['value']))
            elif 'type' in c:
                out.append(c['type'].get('qualType', '?'))
            elif 'inner' in c:
                out.append('pack%d' % len(c['inner']))
            else:
                out.append('?')
    return out


def qt(n):
    t = n.get('type') or {}
    return t.get('desugaredQualType') or t.get('qualType') or ''


def qt_sugar(n):
    t = n.get('type') or {}
    return t.get('qualType') or ''


def load_docs(text):
    dec = json.JSONDecoder()
    i = 0
    docs = []
    n = len(text)
    while i < n:
        while i < n and text[i].isspace():
            i += 1
        if i >= n:
            break
        d, j = dec.raw_decode(text, i)
        docs.append(d)
        i = j
    return docs


def dump_ast(inst_cpp, filt, repo_include, cache_dir=None, extra=()):
    """Run clang++ and return the AST; cached by content hash of every header
    below repo_include plus the driver (so a working-tree edit invalidates)."""
    cmd = ['clang++', '-std=c++17', '-DNDEBUG', '-I' + repo_include, '-fsyntax-only',
           '-Wno-everything', '-Xclang', '-ast-dump=json', '-Xclang', '-ast-dump-filter=' + filt] + list(extra) + [inst_cpp]
    key = None
    if cache_dir:
        h = hashlib.sha256()
        h.update(' '.join(cmd).encode())
        h.update(open(inst_cpp, 'rb').read())
        for inc in [repo_include] + [x[2:] for x in extra if x.startswith('-I')]:
            for root, _, files in sorted(os.walk(inc)):
                for f in sorted(files):
                    p = os.path.join(root, f)
                    h.update(p.encode())
                    h.update(open(p, 'rb').read())
        prefix = re.sub(r'[^A-Za-z0-9]+', '_', os.path.basename(inst_cpp) + '__' + filt) + '__'
        key = os.path.join(cache_dir, prefix + h.hexdigest()[:24] + '.json')
        if os.path.exists(key):
            return AST(load_docs(open(key).read()), filt), cmd
    r = subprocess.run(cmd, stdout=subprocess.PIPE, stderr=subprocess.PIPE, text=True)
    if r.returncode != 0:
        raise RuntimeError('clang++ failed on %s:\n%s' % (inst_cpp, r.stderr[-4000:]))
    if key:
        os.makedirs(cache_dir, exist_ok=True)
        tmp = key + '.%d.tmp' % os.getpid()
        open(tmp, 'w').write(r.stdout)
        os.replace(tmp, key)
        # one cached dump per (driver, filter): older working-tree states are dropped
        for f in os.listdir(cache_dir):
            if f.startswith(prefix) and os.path.join(cache_dir, f) != key and f.endswith('.json'):
                try:
                    os.remove(os.path.join(cache_dir, f))
                except OSError:
                    pass
    return AST(load_docs(r.stdout), filt), cmd
