// instantiation driver: the client over the repository's own scriptable stream type
// (test/include/test_common/test_stream.hpp): a stream that is NOT a plain
// asio::basic_stream_socket, so that the general branches of shutdown_op (and the
// code that only such streams instantiate) exist in the AST.
#include <boost/mqtt5.hpp>
#include <boost/asio/io_context.hpp>
#include <boost/asio/detached.hpp>
#include "test_common/test_stream.hpp"
namespace verif_inst_ts {
namespace asio = boost::asio;
using namespace boost::mqtt5;
using client_type = mqtt_client<test::test_stream>;
void drv(asio::io_context& ioc) {
  client_type c(ioc.get_executor());
  c.brokers("a,b", 1883);
  c.async_run(asio::detached);
  c.async_disconnect(disconnect_rc_e::normal_disconnection, disconnect_props{}, [](error_code) {});
  c.async_disconnect([](error_code) {});
  c.cancel();
}
}
