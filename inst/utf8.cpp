// instantiation driver: validators of detail/utf8_mqtt.hpp and detail/topic_validation.hpp
#include <boost/mqtt5/detail/topic_validation.hpp>
namespace verif_inst {
using namespace boost::mqtt5::detail;
void drv(std::string_view s, const std::pair<std::string, std::string>& p) {
  (void)validate_mqtt_utf8(s);
  (void)validate_topic_name(s);
  (void)validate_topic_alias_name(s);
  (void)validate_shared_topic_name(s);
  (void)validate_topic_filter(s);
  (void)validate_shared_topic_filter(s);
  (void)is_valid_string_pair(p);
}
}
