// instantiation driver: hand-written encoders/decoders of impl/codecs
#include <boost/mqtt5/impl/codecs/base_encoders.hpp>
#include <boost/mqtt5/impl/codecs/base_decoders.hpp>
#include <boost/mqtt5/impl/codecs/message_encoders.hpp>
#include <boost/mqtt5/impl/codecs/message_decoders.hpp>
namespace verif_inst {
using namespace boost::mqtt5;
void drv(std::string& s, detail::byte_citer first, detail::byte_citer last, uint32_t remain) {
  encoders::basic::to_variable_bytes(s, 1);
  (void)encoders::basic::variable_length(1);
  (void)decoders::type_parse(first, last, decoders::basic::varint_);
  (void)decoders::decode_fixed_header(first, last);
  (void)decoders::decode_packet_id(first);
  (void)decoders::decode_connack(remain, first);
  (void)decoders::decode_publish(uint8_t(0), remain, first);
  (void)decoders::decode_puback(remain, first);
  (void)decoders::decode_pubrec(remain, first);
  (void)decoders::decode_pubrel(remain, first);
  (void)decoders::decode_pubcomp(remain, first);
  (void)decoders::decode_suback(remain, first);
  (void)decoders::decode_unsuback(remain, first);
  (void)decoders::decode_disconnect(remain, first);
  (void)decoders::decode_auth(remain, first);
}
}
