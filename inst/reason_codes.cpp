// instantiation driver: only includes real headers and names the entry points
#include <boost/mqtt5/reason_codes.hpp>
namespace verif_inst {
using namespace boost::mqtt5;
using C = reason_codes::category;
void drv() {
  (void)to_reason_code<C::connack>(0);
  (void)to_reason_code<C::puback>(0);
  (void)to_reason_code<C::pubrec>(0);
  (void)to_reason_code<C::pubrel>(0);
  (void)to_reason_code<C::pubcomp>(0);
  (void)to_reason_code<C::suback>(0);
  (void)to_reason_code<C::unsuback>(0);
  (void)to_reason_code<C::auth>(0);
  (void)to_reason_code<C::disconnect>(0);
}
}
