// instantiation driver: the whole client over a TCP socket; every user-facing
// entry point is used once so that clang instantiates the operation classes.
#include <boost/mqtt5.hpp>
#include <boost/asio/io_context.hpp>
#include <boost/asio/ip/tcp.hpp>
#include <boost/asio/detached.hpp>
namespace verif_inst {
namespace asio = boost::asio;
using namespace boost::mqtt5;
using client_type = mqtt_client<asio::ip::tcp::socket>;
void drv(asio::io_context& ioc) {
  client_type c(ioc);
  c.brokers("a,b", 1883).credentials("id", "u", "p").keep_alive(10);
  c.async_run(asio::detached);
  c.async_publish<qos_e::at_most_once>("t", "p", retain_e::no, publish_props{}, [](error_code) {});
  c.async_publish<qos_e::at_least_once>("t", "p", retain_e::no, publish_props{}, [](error_code, reason_code, puback_props) {});
  c.async_publish<qos_e::exactly_once>("t", "p", retain_e::no, publish_props{}, [](error_code, reason_code, pubcomp_props) {});
  c.async_subscribe(subscribe_topic{"t", subscribe_options{}}, subscribe_props{}, [](error_code, std::vector<reason_code>, suback_props) {});
  c.async_unsubscribe("t", unsubscribe_props{}, [](error_code, std::vector<reason_code>, unsuback_props) {});
  c.async_receive([](error_code, std::string, std::string, publish_props) {});
  c.async_disconnect(disconnect_rc_e::normal_disconnection, disconnect_props{}, [](error_code) {});
  c.async_disconnect([](error_code) {});
  c.re_authenticate();
  c.cancel();
}
}
