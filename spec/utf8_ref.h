/* spec/utf8_ref.h -- reference recogniser for "well-formed MQTT 5 UTF-8".
 * Written from:
 *   The Unicode Standard 15.0, Table 3-7 "Well-Formed UTF-8 Byte Sequences"
 *   OASIS MQTT 5.0 section 1.5.4 (UTF-8 Encoded String): no U+D800..U+DFFF,
 *   no U+0000, and the excluded ranges U+0001..U+001F, U+007F..U+009F and
 *   non-characters, which property C16 counts as ill-formed;
 *   section 4.7.1 (wildcards) and 4.8.2 (shared subscriptions).
 * NOT derived from the repository's code.
 * Bytes are read from the ghost buffer g_buf (models/std.h).
 */
#ifndef VERIF_SPEC_UTF8_REF_H
#define VERIF_SPEC_UTF8_REF_H

enum { V_VALID = 0, V_WILD = 1, V_INVALID = 2 };
/* which characters a validator admits */
enum { M_ANY = 0,      /* any admissible code point ('+' and '#' are ordinary) */
       M_NOWILD = 1,   /* no '+' and no '#' (topic names, share names)      */
       M_FILTER = 2 }; /* topic filter body: no '#', '+' only as a whole level */

#define REF_B(off) ((unsigned)(unsigned char)g_buf[(off)])
#define REF_CONT(b) ((b) >= 0x80u && (b) <= 0xBFu)

/* length (1..4) of the well-formed UTF-8 sequence starting at g_buf[off] when
 * `avail` (>= 1) bytes are available; 0 if ill-formed or truncated */
static inline int ref_utf8_len(long off, unsigned long avail) {
  unsigned b0 = REF_B(off);
  if (b0 <= 0x7Fu) return 1;
  if (b0 >= 0xC2u && b0 <= 0xDFu)
    return (avail >= 2 && REF_CONT(REF_B(off + 1))) ? 2 : 0;
  if (b0 >= 0xE0u && b0 <= 0xEFu) {
    if (avail < 3) return 0;
    unsigned b1 = REF_B(off + 1), b2 = REF_B(off + 2);
    unsigned lo = (b0 == 0xE0u) ? 0xA0u : 0x80u;
    unsigned hi = (b0 == 0xEDu) ? 0x9Fu : 0xBFu;
    return (b1 >= lo && b1 <= hi && REF_CONT(b2)) ? 3 : 0;
  }
  if (b0 >= 0xF0u && b0 <= 0xF4u) {
    if (avail < 4) return 0;
    unsigned b1 = REF_B(off + 1), b2 = REF_B(off + 2), b3 = REF_B(off + 3);
    unsigned lo = (b0 == 0xF0u) ? 0x90u : 0x80u;
    unsigned hi = (b0 == 0xF4u) ? 0x8Fu : 0xBFu;
    return (b1 >= lo && b1 <= hi && REF_CONT(b2) && REF_CONT(b3)) ? 4 : 0;
  }
  return 0; /* 80..C1, F5..FF can never start a sequence */
}
/* scalar value of the well-formed sequence of length len at off */
static inline int ref_utf8_cp(long off, int len) {
  unsigned b0 = REF_B(off);
  if (len == 1) return (int)b0;
  if (len == 2) return (int)(((b0 & 0x1Fu) << 6) | (REF_B(off + 1) & 0x3Fu));
  if (len == 3) return (int)(((b0 & 0x0Fu) << 12) | ((REF_B(off + 1) & 0x3Fu) << 6) | (REF_B(off + 2) & 0x3Fu));
  return (int)(((b0 & 0x07u) << 18) | ((REF_B(off + 1) & 0x3Fu) << 12) | ((REF_B(off + 2) & 0x3Fu) << 6) | (REF_B(off + 3) & 0x3Fu));
}
/* MQTT 5 1.5.4: admissible Unicode scalar value */
static inline int ref_cp_ok(int cp) {
  if (cp < 0 || cp > 0x10FFFF) return 0;
  if (cp <= 0x1F) return 0;                    /* U+0000 and C0 controls   */
  if (cp >= 0x7F && cp <= 0x9F) return 0;      /* DEL and C1 controls      */
  if (cp >= 0xD800 && cp <= 0xDFFF) return 0;  /* surrogates               */
  if (cp >= 0xFDD0 && cp <= 0xFDEF) return 0;  /* non-characters           */
  if ((cp & 0xFFFE) == 0xFFFE) return 0;       /* U+nFFFE, U+nFFFF         */
  return 1;
}
static inline int ref_class(int cp) {
  if (cp == '#' || cp == '+') return V_WILD;
  return ref_cp_ok(cp) ? V_VALID : V_INVALID;
}
/* may code point cp stand at this place?  prev = previous code point (-1 at
 * the start), off_after = offset just behind cp, end = end of the folded range */
static inline int ref_char_ok(int mode, int cp, int prev, long off_after, long end) {
  if (!ref_cp_ok(cp)) return 0;
  if (mode == M_ANY) return 1;
  if (cp == '#') return 0;
  if (cp == '+')
    return mode == M_FILTER && (prev == -1 || prev == '/') &&
           (off_after == end || g_buf[off_after] == '/');
  return 1;
}
#endif
