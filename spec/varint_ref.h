/* spec/varint_ref.h -- MQTT 5 section 1.5.5 Variable Byte Integer.
 * "The least significant seven bits of each byte encode the data, and the most
 *  significant bit is used to indicate whether there are bytes following ...
 *  The maximum number of bytes in the Variable Byte Integer field is four.
 *  The encoded value MUST use the minimum number of bytes necessary"
 * Size table of 1.5.5: 1 byte 0..127, 2 bytes 128..16383, 3 bytes
 * 16384..2097151, 4 bytes 2097152..268435455.  Not derived from the code. */
#ifndef VERIF_SPEC_VARINT_REF_H
#define VERIF_SPEC_VARINT_REF_H
#define REF_VARINT_MAX 268435455
static inline int ref_varint_len(long v) {
  return v < 128 ? 1 : (v < 16384 ? 2 : (v < 2097152 ? 3 : 4));
}
/* k-th byte (k < len) of the canonical encoding of v, 0 <= v <= REF_VARINT_MAX */
static inline unsigned ref_varint_byte(long v, int k) {
  unsigned d = (unsigned)((v >> (7 * k)) & 0x7F);
  return (k + 1 < ref_varint_len(v)) ? (d | 0x80u) : d;
}
#define REF_VB(off) ((unsigned)(unsigned char)g_buf[(off)])
/* length (1..4) of the Variable Byte Integer at g_buf[off] when avail bytes may
 * be read; 0 if it is truncated or a fourth byte still has the continuation bit */
static inline int ref_varint_dec_len(long off, long avail) {
  if (avail < 1) return 0;
  if (REF_VB(off) < 128u) return 1;
  if (avail < 2) return 0;
  if (REF_VB(off + 1) < 128u) return 2;
  if (avail < 3) return 0;
  if (REF_VB(off + 2) < 128u) return 3;
  if (avail < 4) return 0;
  if (REF_VB(off + 3) < 128u) return 4;
  return 0;
}
static inline long ref_varint_dec_value(long off, int len) {
  long v = (long)(REF_VB(off) & 127u);
  if (len >= 2) v |= (long)(REF_VB(off + 1) & 127u) << 7;
  if (len >= 3) v |= (long)(REF_VB(off + 2) & 127u) << 14;
  if (len >= 4) v |= (long)(REF_VB(off + 3) & 127u) << 21;
  return v;
}
#endif
