/* spec/reason_tables.h -- which Reason Code byte MQTT 5 lists for which packet
 * type.  Transcribed from OASIS MQTT Version 5.0, section 2.4 (Table 2-6
 * "Reason Codes") cross-checked with the per-packet tables 3.2.2.2 (CONNACK),
 * 3.4.2.1 (PUBACK), 3.5.2.1 (PUBREC), 3.6.2.1 (PUBREL), 3.7.2.1 (PUBCOMP),
 * 3.9.3 (SUBACK), 3.11.3 (UNSUBACK), 3.14.2.1 (DISCONNECT), 3.15.2.1 (AUTH).
 * NOT derived from the repository's tables.
 *
 * Result: 1 = listed for that packet and a Server may send it (must accept),
 *         0 = not listed (must reject),
 *         2 = either is allowed by property C20:
 *             DISCONNECT 0x04 and AUTH 0x19 are listed but sent by Clients
 *             only; DISCONNECT 0x8C is listed by 2.4 but not by 3.14.2.1.
 * Category numbering is reason_codes::category (connack=1 ... disconnect=9).
 */
#ifndef VERIF_SPEC_REASON_TABLES_H
#define VERIF_SPEC_REASON_TABLES_H

enum { RC_CONNACK = 1, RC_PUBACK = 2, RC_PUBREC = 3, RC_PUBREL = 4, RC_PUBCOMP = 5,
       RC_SUBACK = 6, RC_UNSUBACK = 7, RC_AUTH = 8, RC_DISCONNECT = 9 };

static inline int ref_rc_connack(unsigned c) {
  return c == 0x00 || (c >= 0x80 && c <= 0x8A) || c == 0x8C || c == 0x90 || c == 0x95 ||
         c == 0x97 || c == 0x99 || c == 0x9A || c == 0x9B || c == 0x9C || c == 0x9D || c == 0x9F;
}
static inline int ref_rc_puback_pubrec(unsigned c) {
  return c == 0x00 || c == 0x10 || c == 0x80 || c == 0x83 || c == 0x87 || c == 0x90 ||
         c == 0x91 || c == 0x97 || c == 0x99;
}
static inline int ref_rc_pubrel_pubcomp(unsigned c) { return c == 0x00 || c == 0x92; }
static inline int ref_rc_suback(unsigned c) {
  return c == 0x00 || c == 0x01 || c == 0x02 || c == 0x80 || c == 0x83 || c == 0x87 ||
         c == 0x8F || c == 0x91 || c == 0x97 || c == 0x9E || c == 0xA1 || c == 0xA2;
}
static inline int ref_rc_unsuback(unsigned c) {
  return c == 0x00 || c == 0x11 || c == 0x80 || c == 0x83 || c == 0x87 || c == 0x8F || c == 0x91;
}
static inline int ref_rc_auth(unsigned c) {
  if (c == 0x19) return 2;
  return c == 0x00 || c == 0x18;
}
static inline int ref_rc_disconnect(unsigned c) {
  if (c == 0x04 || c == 0x8C) return 2;
  return c == 0x00 || c == 0x80 || c == 0x81 || c == 0x82 || c == 0x83 || c == 0x87 ||
         c == 0x89 || c == 0x8B || c == 0x8D || c == 0x8E || c == 0x8F || c == 0x90 ||
         (c >= 0x93 && c <= 0xA2);
}
static inline int ref_rc(int cat, unsigned c) {
  switch (cat) {
    case RC_CONNACK: return ref_rc_connack(c);
    case RC_PUBACK: case RC_PUBREC: return ref_rc_puback_pubrec(c);
    case RC_PUBREL: case RC_PUBCOMP: return ref_rc_pubrel_pubcomp(c);
    case RC_SUBACK: return ref_rc_suback(c);
    case RC_UNSUBACK: return ref_rc_unsuback(c);
    case RC_AUTH: return ref_rc_auth(c);
    case RC_DISCONNECT: return ref_rc_disconnect(c);
  }
  return 0;
}
#endif
