/* models/std.h -- assumed contracts of the C++ standard library entities the
 * emitted code uses (class 2 of DESIGN 3.2).  Every function states the
 * library's precondition as MODEL_PRE: under CBMC a failed precondition is a
 * named failed obligation ("model precondition: ..."); natively (translation
 * validation, replay) it increments model_pre_failures and the function
 * returns a harmless value so that the comparison run itself has no UB.
 *
 * Strings, string_views and const char iterators are positions in ONE ghost
 * byte buffer g_buf[0..g_n): a view is (offset,length), an iterator an offset.
 */
#ifndef VERIF_MODELS_STD_H
#define VERIF_MODELS_STD_H

typedef long opq_t;            /* opaque handle (class 3) */
typedef long it_t;             /* const char iterator = offset into g_buf */
typedef int ec_t;              /* boost::system::error_code as an integer */
/* moving out of a type-erased handler leaves it empty (assumed Asio contract) */
static inline opq_t opq_take(opq_t *h) { opq_t r = *h; *h = 0; return r; }

#ifdef VERIF_CBMC
/* a limit of the MODEL (not of the library): reaching it makes the run UNDECIDED */
#define MODEL_LIMIT(c, msg) __CPROVER_assert((c), "model limit: " msg)
#define MODEL_PRE(c, msg) __CPROVER_assert((c), "model precondition: " msg)
#define MODEL_FAIL_RET(c, v)
#ifdef VERIF_VACUITY
/* vacuity build: every marked point must be reachable, i.e. this must FAIL */
#define VERIF_COVER(id) __CPROVER_assert(0, "reach:" #id)
/* only the returns of the function under contract are probed */
#define VERIF_COVER_IN(fn, id) if (VERIF_FNID_##fn == VERIF_VACUITY_FN) __CPROVER_assert(0, "reach:" #id)
#else
#define VERIF_COVER(id)
#define VERIF_COVER_IN(fn, id)
#endif
#else
extern unsigned long model_pre_failures;
#define MODEL_PRE(c, msg) do { if (!(c)) model_pre_failures++; } while (0)
#define MODEL_LIMIT(c, msg) do { if (!(c)) model_pre_failures++; } while (0)
#define MODEL_FAIL_RET(c, v) do { if (!(c)) return (v); } while (0)
#define VERIF_COVER(id)
#endif

extern char *g_buf;            /* ghost byte buffer */
extern unsigned long g_n;      /* its length */
extern long g_lo, g_hi;        /* window [g_lo,g_hi) a dereference must stay in */
static char g_dummy;

#define SV_NPOS (~0ul)

typedef struct { long off; unsigned long n; } sv_t;
typedef sv_t str_t;            /* read-only std::string: same representation */

static inline unsigned long sv_size(const sv_t *s) { return s->n; }
static inline _Bool sv_empty(const sv_t *s) { return s->n == 0; }
static inline const char *sv_at(const sv_t *s, unsigned long i) {
  /* string_view::operator[]: UB unless i < size() */
  MODEL_PRE(i < s->n, "string_view[i] requires i < size()");
  MODEL_FAIL_RET(i < s->n, &g_dummy);
  return &g_buf[s->off + (long)i];
}
static inline const char *sv_front(const sv_t *s) {
  MODEL_PRE(s->n > 0, "string_view::front requires !empty()");
  MODEL_FAIL_RET(s->n > 0, &g_dummy);
  return &g_buf[s->off];
}
static inline const char *sv_back(const sv_t *s) {
  MODEL_PRE(s->n > 0, "string_view::back requires !empty()");
  MODEL_FAIL_RET(s->n > 0, &g_dummy);
  return &g_buf[s->off + (long)(s->n - 1)];
}
/* by-value reads (used where the C++ expression is immediately converted to an rvalue) */
static inline char sv_at_v(const sv_t *s, unsigned long i) {
  MODEL_PRE(i < s->n, "string_view[i] requires i < size()");
  MODEL_FAIL_RET(i < s->n, 0);
  return g_buf[s->off + (long)i];
}
static inline char sv_front_v(const sv_t *s) {
  MODEL_PRE(s->n > 0, "string_view::front requires !empty()");
  MODEL_FAIL_RET(s->n > 0, 0);
  return g_buf[s->off];
}
static inline char sv_back_v(const sv_t *s) {
  MODEL_PRE(s->n > 0, "string_view::back requires !empty()");
  MODEL_FAIL_RET(s->n > 0, 0);
  return g_buf[s->off + (long)(s->n - 1)];
}
static inline void sv_remove_prefix(sv_t *s, unsigned long k) {
  MODEL_PRE(k <= s->n, "string_view::remove_prefix requires n <= size()");
#ifndef VERIF_CBMC
  if (k > s->n) k = s->n;
#endif
  s->off += (long)k; s->n -= k;
}
static inline void sv_remove_suffix(sv_t *s, unsigned long k) {
  MODEL_PRE(k <= s->n, "string_view::remove_suffix requires n <= size()");
#ifndef VERIF_CBMC
  if (k > s->n) k = s->n;
#endif
  s->n -= k;
}
static inline sv_t sv_substr(const sv_t *s, unsigned long pos, unsigned long cnt) {
  /* throws out_of_range if pos > size(): modelled as precondition */
  sv_t r;
  MODEL_PRE(pos <= s->n, "string_view::substr requires pos <= size() (else throws)");
#ifndef VERIF_CBMC
  if (pos > s->n) pos = s->n;
#endif
  r.off = s->off + (long)pos;
  r.n = (cnt < s->n - pos) ? cnt : s->n - pos;
  return r;
}
static inline sv_t sv_from_str(const str_t *s) { return *s; }
static inline sv_t sv_empty_view(void) { sv_t r; r.off = 0; r.n = 0; return r; }
static inline unsigned long str_size(const str_t *s) { return s->n; }
static inline _Bool str_empty(const str_t *s) { return s->n == 0; }
/* mutable std::string: occupies g_buf[off, off+n) with room behind it (growth
 * never fails in the model: allocation failure is not modelled) */
static inline void str_push_back(str_t *s, char c) {
  MODEL_LIMIT(s->off + (long)s->n < (long)g_n, "room behind the string in the ghost buffer");
#ifndef VERIF_CBMC
  if (!(s->off + (long)s->n < (long)g_n)) return;
#endif
  g_buf[s->off + (long)s->n] = c;
  s->n++;
}
static inline void str_resize(str_t *s, unsigned long k) {
  MODEL_LIMIT(s->off + (long)k <= (long)g_n && k <= 0x7ffffffful, "room behind the string in the ghost buffer (resize)");
  s->n = k;     /* bytes gained by growth are left arbitrary (libstdc++ zero-fills) */
}
/* basic_string::erase(first, last): only erasure of a PREFIX is modelled (first == begin()): the view
 * moves forward over the erased bytes; the remaining bytes keep their contents, every iterator into the
 * string is invalidated as in C++ (the caller must not use old ones) */
static inline it_t str_erase(str_t *s, it_t first, it_t last) {
  MODEL_PRE(s->off <= first && first <= last && last <= s->off + (long)s->n, "string::erase requires a valid range of the string");
  MODEL_LIMIT(first == s->off, "only erasure of a prefix of the string is modelled");
  s->n -= (unsigned long)(last - first); s->off = last; return s->off;
}
static inline char *str_data(const str_t *s) { return g_buf + s->off; }
static inline const char *str_at(const str_t *s, unsigned long i) {
  MODEL_PRE(i <= s->n, "string[i] requires i <= size()");
  MODEL_FAIL_RET(i <= s->n, &g_dummy);
  return &g_buf[s->off + (long)i];
}
static inline it_t str_begin(const str_t *s) { return s->off; }
static inline it_t str_end(const str_t *s) { return s->off + (long)s->n; }
static inline it_t sv_begin(const sv_t *s) { return s->off; }
static inline it_t sv_end(const sv_t *s) { return s->off + (long)s->n; }

/* string literals bound to string_views live outside g_buf: a literal view has
 * off <= SVLIT_BASE and its bytes come from svlit_tab (filled by
 * __cxx_global_init from the literal text in the AST) */
#define SVLIT_BASE (-1000000000L)
extern const char *svlit_tab[32];
#define DEF_SV_LITERAL(NAME, TEXT, N, K) \
  static inline sv_t NAME(void) { sv_t r; r.off = SVLIT_BASE - (K); r.n = (N); return r; }
static inline const char *sv_bytes(const sv_t *s) {
  if (s->off <= SVLIT_BASE) return svlit_tab[SVLIT_BASE - s->off];
  return g_buf + s->off;
}
/* basic_string_view::compare(pos, count, v): substr(pos,count).compare(v);
 * traits_type::compare orders bytes as unsigned char.  The loop is bounded by
 * v.size(); callers in /repo pass literals, so a fixed unwinding is complete. */
static inline int sv_compare(const sv_t *s, unsigned long pos, unsigned long cnt, sv_t v) {
  MODEL_PRE(pos <= s->n, "string_view::compare requires pos <= size() (else throws)");
  MODEL_FAIL_RET(pos <= s->n, 1);
  unsigned long rlen = (cnt < s->n - pos) ? cnt : s->n - pos;
  unsigned long m = (rlen < v.n) ? rlen : v.n;
  const char *a = sv_bytes(s) + pos;
  const char *b = sv_bytes(&v);
  for (unsigned long i = 0; i < m; i++) {
    if (a[i] != b[i]) return ((unsigned char)a[i] < (unsigned char)b[i]) ? -1 : 1;
  }
  return rlen < v.n ? -1 : (rlen > v.n ? 1 : 0);
}
/* basic_string_view::find_first_of(ch, pos): smallest index >= pos holding ch,
 * else npos.  Under CBMC an ASSUMED CONTRACT instead of a loop: the result is
 * nondeterministic, constrained to be an occurrence (or npos), and "no
 * occurrence before it" is assumed at the ghost index g_ffo_j -- an instance
 * of the universally quantified library guarantee; the harness leaves g_ffo_j
 * arbitrary, so facts derived through it hold for every index. */
#ifdef VERIF_CBMC
extern long g_ffo_j;
unsigned long nondet_ulong(void);
static inline unsigned long sv_find_first_of(const sv_t *s, char ch, unsigned long pos) {
  unsigned long r = nondet_ulong();
  __CPROVER_assume(r == SV_NPOS || (pos <= r && r < s->n && g_buf[s->off + (long)r] == ch));
  __CPROVER_assume(!(g_ffo_j >= 0 && pos <= (unsigned long)g_ffo_j &&
                     (unsigned long)g_ffo_j < (r == SV_NPOS ? s->n : r)) ||
                   g_buf[s->off + g_ffo_j] != ch);
  return r;
}
#else
static inline unsigned long sv_find_first_of(const sv_t *s, char ch, unsigned long pos) {
  for (unsigned long i = pos; i < s->n; i++) if (sv_bytes(s)[i] == ch) return i;
  return SV_NPOS;
}
#endif

/* const char iterator */
static inline const char *it_deref(it_t it) {
  MODEL_PRE(g_lo <= it && it < g_hi, "iterator dereference inside [first,last)");
  MODEL_FAIL_RET(g_lo <= it && it < g_hi, &g_dummy);
  return &g_buf[it];
}
static inline char it_deref_v(it_t it) {
  MODEL_PRE(g_lo <= it && it < g_hi, "iterator dereference inside [first,last)");
  MODEL_FAIL_RET(g_lo <= it && it < g_hi, 0);
  return g_buf[it];
}
/* std::string(first, last): [first,last) must be a valid range of one container
 * (first > last makes libstdc++ throw length_error / read out of bounds) and,
 * being read, must lie inside the window.  The model shares the bytes. */
static inline str_t str_from_range(it_t first, it_t last) {
  str_t r;
  MODEL_PRE(first <= last, "std::string(first,last) requires first <= last");
  MODEL_PRE(first == last || (g_lo <= first && last <= g_hi), "std::string(first,last) reads inside [first,last) of the packet");
  r.off = first; r.n = (first <= last) ? (unsigned long)(last - first) : 0ul;
  return r;
}
static inline it_t it_add(it_t it, long d) { return it + d; }
static inline long it_distance(it_t a, it_t b) { return b - a; }

#define DEF_OPT(NAME, T) \
  typedef struct { _Bool has; T val; } NAME; \
  static inline NAME NAME##_none(void) { NAME r; r.has = 0; return r; } \
  static inline NAME NAME##_some(T v) { NAME r; r.has = 1; r.val = v; return r; } \
  static inline T *NAME##_value(NAME *o) { \
    MODEL_PRE(o->has, "optional::value()/operator* requires has_value()"); \
    return &o->val; } \
  static inline T NAME##_value_or(NAME *o, T d) { return o->has ? o->val : d; } \
  static inline void NAME##_emplace(NAME *o, T v) { o->has = 1; o->val = v; }

#define DEF_PAIR(NAME, A, B) \
  typedef struct { A first; B second; } NAME; \
  static inline NAME NAME##_make(A a, B b) { NAME r; r.first = a; r.second = b; return r; }

/* std::vector<T>: element array + length; iterators are element pointers.
 * Growth beyond VEC_CAP elements is a limit of the MODEL (run UNDECIDED), not
 * of the library.  Operations that shift elements have loops bounded by the
 * length (proved with the harness' capacity and unwinding assertions). */
#if defined(VEC_CAP_Q) && !defined(VEC_CAP)
#ifdef VERIF_TIER_THOROUGH
#define VEC_CAP VEC_CAP_T
#else
#define VEC_CAP VEC_CAP_Q
#endif
#endif
#ifndef VEC_CAP
#define VEC_CAP 8
#endif
#ifdef VERIF_CBMC
#define VEC_ALLOC(n) __CPROVER_allocate((n), 0)
#else
#include <stdlib.h>
#define VEC_ALLOC(n) malloc(n)
#endif
#define DEF_VEC(NAME, T) \
  typedef struct { T *data; unsigned long n; } NAME; \
  static inline unsigned long NAME##_size(const NAME *v) { return v->n; } \
  static inline _Bool NAME##_empty(const NAME *v) { return v->n == 0; } \
  static inline T *NAME##_back(NAME *v) { MODEL_PRE(v->n > 0, "vector::back requires !empty()"); return &v->data[v->n - 1]; } \
  static inline T *NAME##_front(NAME *v) { MODEL_PRE(v->n > 0, "vector::front requires !empty()"); return &v->data[0]; } \
  static inline void NAME##_pop_back(NAME *v) { MODEL_PRE(v->n > 0, "vector::pop_back requires !empty()"); v->n--; } \
  static inline void NAME##_pop_front(NAME *v) { \
    MODEL_PRE(v->n > 0, "deque::pop_front requires !empty()"); \
    for (unsigned long k = 0; k + 1 < v->n; k++) v->data[k] = v->data[k + 1]; \
    v->n--; } \
  static inline T *NAME##_begin(NAME *v) { return v->data; } \
  static inline T *NAME##_end(NAME *v) { return v->n ? v->data + v->n : v->data; } \
  static inline T *NAME##_at(NAME *v, unsigned long i) { MODEL_PRE(i < v->n, "vector[i] requires i < size()"); return &v->data[i]; } \
  static inline void NAME##_push_back(NAME *v, T x) { \
    MODEL_LIMIT(v->n < VEC_CAP, "vector capacity of the model"); \
    if (v->data == 0) v->data = (T *)VEC_ALLOC(VEC_CAP * sizeof(T)); \
    v->data[v->n] = x; v->n++; } \
  static inline NAME NAME##_fill(unsigned long n, T x) { \
    NAME r; MODEL_LIMIT(n <= VEC_CAP, "vector capacity of the model"); \
    r.data = (T *)VEC_ALLOC(VEC_CAP * sizeof(T)); r.n = n; \
    for (unsigned long k = 0; k < n; k++) r.data[k] = x; \
    return r; } \
  static inline void NAME##_clear(NAME *v) { v->n = 0; } \
  static inline T *NAME##_erase(NAME *v, T *it) { \
    MODEL_PRE(v->data <= it && it < v->data + v->n, "vector::erase requires a dereferenceable iterator of this vector"); \
    for (T *k = it; k + 1 < v->data + v->n; k++) *k = *(k + 1); \
    v->n--; return it; } \
  /* move construction / assignment from std::move(v): the source is left empty (libstdc++) */ \
  static inline NAME NAME##_take(NAME *v) { NAME r = *v; v->data = (T *)VEC_ALLOC(VEC_CAP * sizeof(T)); v->n = 0; return r; } \
  static inline T *NAME##_erase_range(NAME *v, T *first, T *last) { \
    MODEL_PRE(v->n == 0 ? (first == v->data && last == v->data) : (v->data <= first && first <= last && last <= v->data + v->n), "vector::erase(first,last) requires a valid range of this vector"); \
    unsigned long cut = (unsigned long)(last - first); \
    for (T *k = first; v->n != 0 && k + cut < v->data + v->n; k++) *k = *(k + cut); \
    v->n -= cut; return first; } \
  static inline T *NAME##_insert_range(NAME *v, T *it, T *first, T *last) { \
    unsigned long cnt = (unsigned long)(last - first); \
    MODEL_PRE(v->n == 0 ? it == v->data : (v->data <= it && it <= v->data + v->n), "vector::insert requires an iterator of this vector"); \
    MODEL_LIMIT(v->n + cnt <= VEC_CAP, "vector capacity of the model"); \
    unsigned long at = v->n == 0 ? 0 : (unsigned long)(it - v->data); \
    if (v->data == 0) v->data = (T *)VEC_ALLOC(VEC_CAP * sizeof(T)); \
    for (unsigned long k = v->n; k > at; k--) v->data[k - 1 + cnt] = v->data[k - 1]; \
    for (unsigned long k = 0; k < cnt; k++) v->data[at + k] = first[k]; \
    v->n += cnt; return v->data + at; } \
  static inline T *NAME##_insert(NAME *v, T *it, T x) { \
    MODEL_PRE(v->data <= it && it <= v->data + v->n, "vector::insert requires an iterator of this vector"); \
    MODEL_LIMIT(v->n < VEC_CAP, "vector capacity of the model"); \
    for (T *k = v->data + v->n; k > it; k--) *k = *(k - 1); \
    *it = x; v->n++; return it; }

/* std::lower_bound over a pointer range, libstdc++'s bisection
 * (bits/stl_algobase.h __lower_bound).  Its precondition (range partitioned
 * with respect to val) is an obligation of the caller's harness. */
#define DEF_LOWER_BOUND_PTR(NAME, T, LESS) \
  static T *NAME(T *first, T *last, T *val) { \
    long len = last - first; \
    while (len > 0) { \
      long half = len >> 1; \
      T *mid = first + half; \
      if (LESS(mid, val)) { first = mid + 1; len = len - half - 1; } \
      else len = half; \
    } \
    return first; }

/* std::upper_bound(first, last, val, comp) over an element-pointer range,
 * libstdc++'s bisection (bits/stl_algo.h __upper_bound): first position p with
 * comp(val, *p).  Precondition (range partitioned w.r.t. comp(val, .)) is an
 * obligation stated where it is used. */
#define DEF_UPPER_BOUND_PTR(NAME, T, V, CLO, COMP) \
  static T *NAME(T *first, T *last, V val, CLO *comp) { \
    long len = last - first; \
    while (len > 0) { \
      long half = len >> 1; \
      T *mid = first + half; \
      if (COMP(comp, val, mid)) len = half; \
      else { first = mid + 1; len = len - half - 1; } \
    } \
    return first; }

/* std::any_of(first, last, pred) over an element-pointer range */
#define DEF_ANY_OF_PTR(NAME, T, CLO, PRED) \
  static _Bool NAME(T *first, T *last, CLO *pred) { \
    for (; first != last; ++first) if (PRED(pred, first)) return 1; \
    return 0; }

/* std::find_if / std::remove_if over an element-pointer range with a closure */
#define DEF_FIND_IF_PTR(NAME, T, CLO, PRED) \
  static T *NAME(T *first, T *last, CLO *pred) { \
    for (; first != last; ++first) if (PRED(pred, first)) return first; \
    return last; }
#define DEF_REMOVE_IF_PTR(NAME, T, CLO, PRED) \
  static T *NAME(T *first, T *last, CLO *pred) { \
    T *result = first; \
    for (; first != last; ++first) if (!PRED(pred, first)) { if (result != first) *result = *first; ++result; } \
    return result; }
/* std::stable_sort(first, last) with operator<: insertion sort (stable).  Its
 * precondition -- operator< is a strict weak order on the elements present --
 * is the lemma of unit leaf (lemma_serial_order). */
#define DEF_STABLE_SORT_PTR(NAME, T, LESS) \
  static void NAME(T *first, T *last) { \
    for (T *i = first; i != last && i + 1 != last; ++i) { \
      T *j = i + 1; T x = *j; \
      while (j != first && LESS(&x, j - 1)) { *j = *(j - 1); --j; } \
      *j = x; } }

#endif

